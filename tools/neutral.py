#!/usr/bin/env python3
"""Apply every behaviour-preserving variant of /verif/seeded-neutral to /repo, run all checks: every check must stay silent."""
import glob, json, os, re, subprocess, sys
V='/verif'
props=['C%02d'%i for i in range(1,21)]
seeds=sorted(glob.glob(V+'/seeded-neutral/*/'))
if len(sys.argv)>1: seeds=[s for s in seeds if os.path.basename(s.rstrip('/')) in sys.argv[1:]]
assert subprocess.run(['git','-C','/repo','diff','--quiet']).returncode==0
res={}
for s in seeds:
    name=os.path.basename(s.rstrip('/'))
    if subprocess.run(['git','-C','/repo','apply',s+'patch.diff']).returncode!=0:
        print(name,'patch does not apply'); continue
    try:
        al={}
        for p in props:
            rr=subprocess.run([V+'/check',p],capture_output=True,text=True,cwd=V)
            if rr.returncode!=0:
                al[p]=[l.strip()[:230] for l in rr.stdout.splitlines() if re.match(r'\s+(violation|analysis)',l)] or ['exit %d'%rr.returncode]
        res[name]=al
    finally:
        subprocess.run(['git','-C','/repo','checkout','--','.'])
    print(name,'SILENT' if not al else 'ALARMS', json.dumps(al)[:900],flush=True)
rp=V+'/seeded-neutral/RESULT.json'
prev={}
if os.path.exists(rp) and len(sys.argv)>1:
    prev=json.load(open(rp))
prev.update(res)
json.dump(prev,open(rp,'w'),indent=1,sort_keys=True)
