#!/usr/bin/env python3
"""Record, for every hand-written function of the two crates, the (type, name) pairs of its local bindings in source order
(rules/local_names.json). The rules' expectations name locals the way this reviewed tree does; the table lets the loader see
through a later rename (vjsx/rules/common.py: canonicalise_locals). Regenerate only after reviewing the tree."""
import json, os, sys
sys.path.insert(0, os.path.dirname(os.path.dirname(os.path.abspath(__file__))))
from vjsx import extract
from vjsx.facts import Facts, VISITOR_CRATE, PLUGIN_CRATE
from vjsx.engine import Ctx
from vjsx.rules import common as C
d, h, _, _ = extract.ensure_facts()
ctx = Ctx(Facts(d), "quick")
C.canonicalise(ctx)
out = {}
fns = []
for hb in ctx.facts.hir:
    if hb["crate"] in (VISITOR_CRATE, PLUGIN_CRATE) and not hb.get("mac"):
        fns.append(hb["crate"] + "::" + hb["path"])
        seen = []
        for ty, nm, _ in C.local_bindings(hb):
            seen.append([ty, nm])
        if seen:
            out[hb["crate"] + "::" + hb["path"]] = seen
sigs = {hb["crate"] + "::" + hb["path"]: [hb["inputs"], hb["output"]] for hb in ctx.facts.hir
        if hb["crate"] in (VISITOR_CRATE, PLUGIN_CRATE) and not hb.get("mac")}
roles = {}
for rname in C.CANON:
    b = C.role(ctx, rname)
    if b is not None:
        roles[rname] = b["path"]
fields = {}
for it in ctx.facts.items:
    if it["crate"] == VISITOR_CRATE and it.get("kind") == "struct" and it["path"].split("::")[-1].split("<")[0] == "VueJsxTransformVisitor":
        fields["VueJsxTransformVisitor"] = [f["name"] for f in it["variants"][0]["fields"]]
structs = sorted(it["path"] for it in ctx.facts.items if it["crate"] == VISITOR_CRATE and it.get("kind") == "struct")
out = {"fields": fields, "structs": structs, "functions": sorted(fns), "signatures": sigs, "roles": roles, "locals": out}
json.dump(out, open(os.path.join(extract.VERIF, "rules", "local_names.json"), "w"), indent=0, sort_keys=True)
print(len(fns), "functions", sum(len(v) for v in out["locals"].values()), "bindings")
