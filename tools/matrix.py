#!/usr/bin/env python3
"""Apply every seeded change to /repo in turn, run all checks, record which properties alarm. Always undoes the patch."""
import glob, json, os, re, subprocess, sys
V = '/verif'
props = ['C%02d' % i for i in range(1, 21)]
seeds = sorted(d for d in glob.glob(V + '/seeded/*/') if '_harness' not in d)
if len(sys.argv) > 1:
    seeds = [s for s in seeds if os.path.basename(s.rstrip('/')) in sys.argv[1:]]
assert subprocess.run(['git', '-C', '/repo', 'diff', '--quiet']).returncode == 0, '/repo is dirty'
out = {}
for s in seeds:
    name = os.path.basename(s.rstrip('/'))
    meta = json.load(open(s + 'meta.json'))
    r = subprocess.run(['git', '-C', '/repo', 'apply', s + 'patch.diff'], capture_output=True, text=True)
    if r.returncode != 0:
        out[name] = {'property': meta.get('property'), 'error': 'patch does not apply'}
        continue
    try:
        hits = {}
        for p in props:
            rr = subprocess.run([V + '/check', p], capture_output=True, text=True, cwd=V)
            if rr.returncode == 1:
                rules = sorted(set(re.findall(r'^\s+(?:violation|analysis-precondition) (\S+)', rr.stdout, re.M)))
                hits[p] = rules
            elif rr.returncode != 0:
                hits[p] = ['exit %d' % rr.returncode]
        out[name] = {'property': meta.get('property'), 'alarms': hits}
    finally:
        subprocess.run(['git', '-C', '/repo', 'checkout', '--', '.'])
    tgt = meta.get('property')
    print(name, tgt, 'DETECTED' if tgt in out[name].get('alarms', {}) else 'missed-by-own-property', {k: v for k, v in out[name].get('alarms', {}).items()}, flush=True)
prev = {}
mp = V + '/seeded/MATRIX.json'
if os.path.exists(mp) and len(sys.argv) > 1:
    prev = json.load(open(mp))
prev.update(out)
json.dump(prev, open(mp, 'w'), indent=1, sort_keys=True)
