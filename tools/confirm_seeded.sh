#!/bin/bash
# usage: confirm_seeded.sh <out.jsonl> [<seed dir>...]   (default: all of /verif/seeded)
# For each seeded change, in a scratch worktree of /repo's HEAD: the demonstration passes without the patch;
# with the patch the 81 fixtures still pass and the demonstration fails.
out=$1; shift
seeds=("$@"); if [ ${#seeds[@]} -eq 0 ]; then seeds=($(ls -d /verif/seeded/*/ | grep -v _harness)); fi
WT=/tmp/wt-confirm
if [ ! -d $WT ]; then git -C /repo worktree add -q --detach $WT HEAD && cp -r /repo/target $WT/target; fi
cd $WT && git reset -q --hard && git checkout -q --detach $(git -C /repo rev-parse HEAD)
clean() { git reset -q --hard HEAD; rm -rf visitor/tests/fixture/zz-demo-* visitor/tests/zz_demo visitor/tests/zz_demo.rs; }
for m in "${seeds[@]}"; do
  m=${m%/}; name=$(basename $m); clean
  kind=$(python3 -c "import json;print(json.load(open('$m/meta.json')).get('demo_kind','fixture'))")
  if [ "$kind" = fixture ]; then
    mkdir -p visitor/tests/fixture/zz-demo-$name && cp -r $m/demo/* visitor/tests/fixture/zz-demo-$name/; touch visitor/tests/fixture.rs
    democmd="cargo test --offline -p swc-vue-jsx-visitor --test fixture zz_demo"
  else
    cp /verif/seeded/_harness/zz_demo.rs visitor/tests/; mkdir -p visitor/tests/zz_demo/$name && cp -r $m/demo/* visitor/tests/zz_demo/$name/
    democmd="cargo test --offline -p swc-vue-jsx-visitor --test zz_demo"
  fi
  base=$($democmd 2>&1 | grep -E "^test result|error(\[|:) |signal" | tail -1)
  if git apply $m/patch.diff 2>/dev/null; then
    touch visitor/tests/fixture.rs
    suite=$(cargo test --offline -p swc-vue-jsx-visitor --test fixture -- --skip zz_demo 2>&1 | grep -E "^test result|error(\[|:) " | tail -1)
    mut=$($democmd 2>&1 | grep -E "^test result|error(\[|:) |signal|SIGABRT|overflow" | tail -1)
  else suite="patch does not apply"; mut=""; fi
  python3 - "$name" "$base" "$suite" "$mut" >> $out <<'PY'
import json,sys
print(json.dumps({"name":sys.argv[1],"demo_without_patch":sys.argv[2],"suite_with_patch":sys.argv[3],"demo_with_patch":sys.argv[4]}))
PY
done
clean
