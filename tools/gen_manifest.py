#!/usr/bin/env python3
"""Generate MANIFEST.json from the rule modules that exist."""
import importlib, json, os, sys
sys.path.insert(0, os.path.dirname(os.path.dirname(os.path.abspath(__file__))))
VERIF = os.path.dirname(os.path.dirname(os.path.abspath(__file__)))
props = [json.loads(l) for l in open(os.path.join(VERIF, "properties.jsonl"))]
checks = []
na = []
for p in props:
    pid = p["id"]
    try:
        mod = importlib.import_module("vjsx.rules." + pid.lower())
    except ModuleNotFoundError:
        na.append({"property_id": pid, "reason": "no static rule built yet for this property (see DESIGN.md §3 for the planned clauses); not claimed"})
        continue
    if getattr(mod, "NOT_APPLICABLE", None):
        na.append({"property_id": pid, "reason": mod.NOT_APPLICABLE})
        continue
    checks.append({
        "property_id": pid,
        "quick_cmd": "./check %s --tier quick" % pid,
        "thorough_cmd": "./check %s --tier thorough" % pid,
        "evidence_file": "/verif/evidence/%s.json" % pid,
        "replay_cmd_template": "cat {path}",
        "engine": "vjsx-static",
        "level_claimed": {"category": mod.LEVEL, "text": mod.LEVEL_TEXT, "design_ref": "DESIGN.md §3 " + pid},
        "level_note": mod.LEVEL_NOTE,
        "technique": mod.TECHNIQUE,
    })
m = {
    "version": 1,
    "setup_cmd": "./setup.sh",
    "hooks": {
        "guard": "swc_vue_jsx_verif",
        "enable": "none needed: nothing in /repo is instrumented; the checks analyse /repo's sources as they are (cargo +nightly check under the vjsx-facts rustc driver)",
        "baseline_off_cmd": "cd /repo && cargo test --workspace --no-fail-fast --offline",
        "source_commits": [],
        "add_only": True,
    },
    "engines": [{
        "name": "vjsx-static",
        "path": "/verif/extractor + /verif/vjsx",
        "serves_properties": [c["property_id"] for c in checks],
        "kind_free_text": "static analysis: a rustc_private driver dumps the typed HIR tree and the MIR CFG (resolved callees, aggregates, asserts, named places) of /repo's two crates; Python rules (dominance / must-pass-through, control dependence, provenance, table extraction, sibling agreement, panic-site inventory) decide clause-level necessary conditions of each property without running the transform",
    }],
    "checks": checks,
    "not_applicable": na,
    "notes": "Static analysis only. Every check re-extracts facts from /repo's current working tree when its sources changed (source-hash keyed cache, cargo fingerprints of the two members deleted so the driver always runs). Verdicts are per clause; what each check does NOT decide is stated in its level_note and in DESIGN.md §4. Known findings: /verif/known_findings.json.",
}
json.dump(m, open(os.path.join(VERIF, "MANIFEST.json"), "w"), indent=1)
print("checks:", [c["property_id"] for c in checks], "n/a:", [n["property_id"] for n in na])
