#!/bin/bash
# usage: tools/try_patch.sh <patch.diff> <ID> [<ID>...]   — apply to /repo, run checks, undo
p=$(realpath "$1"); shift
cd /repo || exit 2
if ! git diff --quiet; then echo "/repo is dirty"; exit 2; fi
git apply "$p" || { echo "patch does not apply"; exit 2; }
cd /verif
for id in "$@"; do ./check $id 2>&1 | grep -E "^(VIOLATION|KNOWN|C[0-9]+ tier|  (violation|analysis))" | cut -c1-330; done
git -C /repo checkout -- .
