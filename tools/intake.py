#!/usr/bin/env python3
"""usage: tools/intake.py <round label> <MUTANTS dir>/<name> ...   — copy sub-agent changes into /verif/seeded/<name>, confirm each in a
scratch worktree with tools/confirm_seeded.sh (demo passes without the patch; with it the 81 fixtures pass and the demo fails) and
record what was run in meta.json. A change that is not confirmed is removed again and listed."""
import json, os, shutil, subprocess, sys
label = sys.argv[1]
head = subprocess.check_output(['git', '-C', '/repo', 'rev-parse', '--short', 'HEAD'], text=True).strip()
names = []
for src in sys.argv[2:]:
    name = os.path.basename(src.rstrip('/'))
    dst = '/verif/seeded/' + name
    if not (os.path.exists(src + '/patch.diff') and os.path.isdir(src + '/demo') and os.path.exists(src + '/meta.json')):
        print('INCOMPLETE', src); continue
    shutil.rmtree(dst, ignore_errors=True)
    shutil.copytree(src, dst)
    m = json.load(open(dst + '/meta.json'))
    if m.get('demo_kind') in ('harness', 'expect') or os.path.exists(dst + '/demo/expect.json'):
        m['demo_kind'] = 'expect'
    else:
        m['demo_kind'] = 'fixture'
    m['origin'] = 'independent sub-agent given only the property text and a scratch worktree (%s; told not to look outside its worktree)' % label
    json.dump(m, open(dst + '/meta.json', 'w'), indent=1)
    names.append(name)
out = '/tmp/intake-%s.jsonl' % os.getpid()
subprocess.run(['bash', '/verif/tools/confirm_seeded.sh', out] + ['/verif/seeded/' + n for n in names], check=False)
bad = []
for line in open(out):
    r = json.loads(line)
    ok = r['demo_without_patch'].startswith('test result: ok. 1 passed') and r['suite_with_patch'].startswith('test result: ok. 81 passed') and not r['demo_with_patch'].startswith('test result: ok')and r['demo_with_patch']
    dst = '/verif/seeded/' + r['name']
    if not ok:
        bad.append(r); shutil.rmtree(dst); continue
    m = json.load(open(dst + '/meta.json'))
    m['confirmed_at_repo_commit'] = head
    m['ran'] = ['scratch worktree /tmp/wt-confirm at /repo HEAD %s (removed afterwards); tools/confirm_seeded.sh' % head,
                'demonstration without the patch: ' + r['demo_without_patch'], '81 fixtures with the patch: ' + r['suite_with_patch'],
                'demonstration with the patch: ' + r['demo_with_patch']]
    json.dump(m, open(dst + '/meta.json', 'w'), indent=1)
    print('CONFIRMED', r['name'])
for r in bad:
    print('REJECTED', json.dumps(r))
os.remove(out)
