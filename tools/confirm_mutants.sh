#!/bin/bash
# usage: confirm_mutants.sh <out.jsonl> <mutant dir>...
# Confirms each seeded change in a scratch worktree of /repo: demo passes without the patch,
# the 81 fixtures still pass with it, and the demo fails with it.
out=$1; shift
WT=/tmp/wt-confirm
if [ ! -d $WT ]; then git -C /repo worktree add -q --detach $WT HEAD && cp -r /repo/target $WT/target; fi
cd $WT && git checkout -q --detach $(git -C /repo rev-parse HEAD) 
for m in "$@"; do
  name=$(basename $m)
  git reset -q --hard HEAD ; rm -rf visitor/tests/fixture/zz-demo-*
  mkdir -p visitor/tests/fixture/zz-demo-$name && cp -r $m/demo/* visitor/tests/fixture/zz-demo-$name/
  touch visitor/tests/fixture.rs
  base=$(cargo test --offline -p swc-vue-jsx-visitor --test fixture 2>&1 | grep -E "^test result" | tail -1)
  applies=yes
  git apply $m/patch.diff 2>/dev/null || applies=no
  if [ $applies = yes ]; then
    touch visitor/tests/fixture.rs
    log=$(cargo test --offline -p swc-vue-jsx-visitor --test fixture 2>&1)
    mut=$(echo "$log" | grep -E "^test result|error(\[|:) " | tail -1)
    failed=$(echo "$log" | grep -E "^test .* FAILED$" | sed 's/^test //; s/ ... FAILED//' | tr '\n' ',')
  else mut="patch does not apply"; failed=""; fi
  printf '{"name":"%s","dir":"%s","baseline":"%s","applies":"%s","mutant":"%s","failed":"%s"}\n' "$name" "$m" "$base" "$applies" "$mut" "$failed" >> $out
done
git reset -q --hard HEAD ; rm -rf visitor/tests/fixture/zz-demo-*
