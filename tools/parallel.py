#!/usr/bin/env python3
"""Run all 20 checks against every seeded change (--kind seeded) or behaviour-preserving variant (--kind neutral) in parallel:
each worker owns a scratch worktree of /repo's HEAD under /tmp, its own extraction cache and evidence directory (VJSX_REPO,
VJSX_CACHE, VJSX_EVIDENCE), so /repo itself is never touched. Results are merged into seeded/MATRIX.json or
seeded-neutral/RESULT.json exactly as tools/matrix.py / tools/neutral.py write them. Worktrees and caches are removed at the end."""
import argparse, glob, json, os, re, shutil, subprocess, sys, threading, queue
V = '/verif'
ap = argparse.ArgumentParser()
ap.add_argument('--kind', choices=['seeded', 'neutral'], required=True)
ap.add_argument('--jobs', type=int, default=8)
ap.add_argument('--tag', default='', help='distinguishes the scratch paths of two concurrent runs')
ap.add_argument('names', nargs='*')
a = ap.parse_args()
props = ['C%02d' % i for i in range(1, 21)]
base = V + ('/seeded/' if a.kind == 'seeded' else '/seeded-neutral/')
seeds = sorted(d for d in glob.glob(base + '*/') if '_harness' not in d and os.path.exists(d + 'patch.diff'))
if a.names:
    seeds = [s for s in seeds if os.path.basename(s.rstrip('/')) in a.names]
q = queue.Queue()
for s in seeds:
    q.put(s)
out = {}
lock = threading.Lock()


def worker(i):
    wt = '/tmp/pw%s-%d' % (a.tag, i)
    cache = '/tmp/pw%s-%d-cache' % (a.tag, i)
    ev = '/tmp/pw%s-%d-evidence' % (a.tag, i)
    with lock:      # concurrent `git worktree add` calls race on .git/worktrees
        subprocess.run(['git', '-C', '/repo', 'worktree', 'add', '-q', '--detach', wt, 'HEAD'], check=True)
    shutil.copytree(V + '/.cache', cache, symlinks=True, ignore=shutil.ignore_patterns('extract.lock'))
    os.makedirs(ev, exist_ok=True)
    env = dict(os.environ, VJSX_REPO=wt, VJSX_CACHE=cache, VJSX_EVIDENCE=ev)
    try:
        while True:
            try:
                s = q.get_nowait()
            except queue.Empty:
                break
            name = os.path.basename(s.rstrip('/'))
            meta = json.load(open(s + 'meta.json')) if os.path.exists(s + 'meta.json') else {}
            subprocess.run(['git', '-C', wt, 'checkout', '-q', '--', '.'])
            if subprocess.run(['git', '-C', wt, 'apply', s + 'patch.diff'], capture_output=True).returncode != 0:
                with lock:
                    out[name] = {'property': meta.get('property'), 'error': 'patch does not apply'}
                    print(name, 'patch does not apply', flush=True)
                continue
            hits = {}
            for p in props:
                rr = subprocess.run([V + '/check', p], capture_output=True, text=True, cwd=V, env=env)
                if rr.returncode != 0:
                    if a.kind == 'seeded':
                        hits[p] = sorted(set(re.findall(r'^\s+(?:violation|analysis-precondition) (\S+)', rr.stdout, re.M))) or ['exit %d' % rr.returncode]
                    else:
                        hits[p] = [l.strip()[:230] for l in rr.stdout.splitlines() if re.match(r'\s+(violation|analysis)', l)] or ['exit %d' % rr.returncode]
            with lock:
                if a.kind == 'seeded':
                    out[name] = {'property': meta.get('property'), 'alarms': hits}
                    tgt = meta.get('property')
                    print(name, tgt, 'DETECTED' if tgt in hits else 'missed-by-own-property', hits, flush=True)
                else:
                    out[name] = hits
                    print(name, 'SILENT' if not hits else 'ALARMS', json.dumps(hits)[:900], flush=True)
    finally:
        with lock:
            subprocess.run(['git', '-C', '/repo', 'worktree', 'remove', '--force', wt])
        shutil.rmtree(cache, ignore_errors=True)
        shutil.rmtree(ev, ignore_errors=True)


ths = [threading.Thread(target=worker, args=(i,)) for i in range(min(a.jobs, max(1, len(seeds))))]
for t in ths:
    t.start()
for t in ths:
    t.join()
subprocess.run(['git', '-C', '/repo', 'worktree', 'prune'])
rp = base + ('MATRIX.json' if a.kind == 'seeded' else 'RESULT.json')
prev = json.load(open(rp)) if os.path.exists(rp) and a.names else {}
prev.update(out)
json.dump(prev, open(rp, 'w'), indent=1, sort_keys=True)
if a.kind == 'seeded':
    missed = [n for n, v in out.items() if v.get('property') not in v.get('alarms', {})]
    print('SUMMARY seeded: %d run, %d detected by own property, missed: %s' % (len(out), len(out) - len(missed), sorted(missed)))
else:
    al = [n for n, v in out.items() if v]
    print('SUMMARY neutral: %d run, %d silent, alarming: %s' % (len(out), len(out) - len(al), sorted(al)))
