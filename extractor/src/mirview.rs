//! MIR view: CFG per body with named places, resolved callees, aggregates, asserts.
use crate::hirview::{dpath, dpath_args, mac_chain, span_file, span_json, ty_str};
use crate::json::J;
use rustc_hir::def::DefKind;
use rustc_middle::mir::{
    self, AggregateKind, AssertKind, BasicBlock, Body, Const, ConstValue, Local, Operand, Place,
    PlaceElem, Rvalue, StatementKind, TerminatorKind, UnwindAction, VarDebugInfoContents,
};
use rustc_middle::ty::{self, Instance, Ty, TyCtxt, TypingEnv};

pub fn const_value_str<'tcx>(tcx: TyCtxt<'tcx>, val: ConstValue) -> Option<String> {
    if !matches!(val, ConstValue::Slice { .. }) {
        return None;
    }
    let bytes = val.try_get_slice_bytes_for_diagnostics(tcx)?;
    Some(String::from_utf8_lossy(bytes).to_string())
}

pub fn bodies(tcx: TyCtxt<'_>) -> J {
    let mut out = Vec::new();
    for owner in tcx.hir_body_owners() {
        let dk = tcx.def_kind(owner);
        if !matches!(dk, DefKind::Fn | DefKind::AssocFn | DefKind::Closure) {
            continue;
        }
        if dk == DefKind::Closure && !tcx.is_closure_like(owner.to_def_id()) {
            continue;
        }
        let body = tcx.optimized_mir(owner.to_def_id());
        out.push(body_json(tcx, owner.to_def_id(), body));
    }
    J::Arr(out)
}

struct Cx<'a, 'tcx> {
    tcx: TyCtxt<'tcx>,
    body: &'a Body<'tcx>,
    typing_env: TypingEnv<'tcx>,
    upvars: Vec<String>,
    names: Vec<Option<String>>,
}

fn body_json<'tcx>(tcx: TyCtxt<'tcx>, did: rustc_hir::def_id::DefId, body: &Body<'tcx>) -> J {
    let mut j = J::obj();
    j.set("path", J::s(dpath(tcx, did)));
    j.set("dp", J::s(tcx.def_path(did).to_string_no_crate_verbose()));
    let dk = tcx.def_kind(did);
    j.set("dk", J::s(format!("{:?}", dk)));
    j.set("file", J::s(span_file(tcx, body.span)));
    j.set("sp", span_json(tcx, body.span));
    let macs = mac_chain(body.span);
    if !macs.is_empty() {
        j.set("mac", J::Arr(macs.into_iter().map(J::s).collect()));
    }
    if dk == DefKind::Closure {
        j.set("parent", J::s(dpath(tcx, tcx.typeck_root_def_id(did))));
        j.set("direct_parent", J::s(dpath(tcx, tcx.parent(did))));
    }
    j.set("arg_count", J::Int(body.arg_count as i128));

    let mut upvars = Vec::new();
    let mut upj = Vec::new();
    if let Some(local) = did.as_local() {
        for cp in tcx.closure_captures(local) {
            let s = cp.to_string(tcx);
            upj.push(
                J::obj()
                    .with("place", J::s(s.clone()))
                    .with("kind", J::s(format!("{:?}", cp.info.capture_kind)))
                    .with("mut", J::Bool(cp.mutability.is_mut())),
            );
            upvars.push(s);
        }
    }
    j.set("upvars", J::Arr(upj));

    let mut names: Vec<Option<String>> = vec![None; body.local_decls.len()];
    for vdi in &body.var_debug_info {
        if let VarDebugInfoContents::Place(p) = &vdi.value {
            if p.projection.is_empty() && vdi.composite.is_none() {
                names[p.local.as_usize()] = Some(vdi.name.to_string());
            }
        }
    }
    let cx = Cx {
        tcx,
        body,
        typing_env: TypingEnv::post_analysis(tcx, did),
        upvars,
        names,
    };

    let mut locals = Vec::new();
    for (l, decl) in body.local_decls.iter_enumerated() {
        let mut lj = J::obj();
        lj.set("i", J::Int(l.as_usize() as i128));
        lj.set("ty", J::s(ty_str(decl.ty)));
        if let Some(n) = &cx.names[l.as_usize()] {
            lj.set("name", J::s(n.clone()));
        }
        lj.set("mut", J::Bool(decl.mutability.is_mut()));
        locals.push(lj);
    }
    j.set("locals", J::Arr(locals));

    // debug info for upvar-projected names etc.
    let mut dbg = Vec::new();
    for vdi in &body.var_debug_info {
        if let VarDebugInfoContents::Place(p) = &vdi.value {
            dbg.push(
                J::obj()
                    .with("name", J::s(vdi.name.to_string()))
                    .with("place", cx.place(p)),
            );
        }
    }
    j.set("debug", J::Arr(dbg));

    let mut blocks = Vec::new();
    for (bb, data) in body.basic_blocks.iter_enumerated() {
        let mut bj = J::obj();
        bj.set("i", J::Int(bb.as_usize() as i128));
        if data.is_cleanup {
            bj.set("cleanup", J::Bool(true));
        }
        let mut stmts = Vec::new();
        for st in &data.statements {
            if let Some(sj) = cx.stmt(st) {
                stmts.push(sj);
            }
        }
        bj.set("stmts", J::Arr(stmts));
        if let Some(term) = &data.terminator {
            bj.set("term", cx.term(term));
        }
        blocks.push(bj);
    }
    j.set("blocks", J::Arr(blocks));
    j
}

fn bbj(bb: BasicBlock) -> J {
    J::Int(bb.as_usize() as i128)
}

impl<'a, 'tcx> Cx<'a, 'tcx> {
    fn local_name(&self, l: Local) -> String {
        match &self.names[l.as_usize()] {
            Some(n) => n.clone(),
            None => format!("_{}", l.as_usize()),
        }
    }

    /// rendered place string with field names, e.g. `(*self).options.optimize`
    fn place(&self, p: &Place<'tcx>) -> J {
        let tcx = self.tcx;
        let mut s = self.local_name(p.local);
        let mut pty = mir::PlaceTy::from_ty(self.body.local_decls[p.local].ty);
        let is_closure_env = p.local.as_usize() == 1
            && !self.upvars.is_empty()
            && {
                let t = self.body.local_decls[p.local].ty;
                let t = match t.kind() {
                    ty::Ref(_, inner, _) => *inner,
                    _ => t,
                };
                matches!(t.kind(), ty::Closure(..))
            };
        let mut projs = Vec::new();
        let mut upvar: Option<String> = None;
        for (i, elem) in p.projection.iter().enumerate() {
            match elem {
                PlaceElem::Deref => {
                    s = format!("(*{})", s);
                    projs.push(J::s("*"));
                }
                PlaceElem::Field(f, fty) => {
                    let mut fname = format!("{}", f.as_usize());
                    match pty.ty.kind() {
                        ty::Adt(adt, _) => {
                            let vidx = pty.variant_index.unwrap_or(rustc_abi::FIRST_VARIANT);
                            if let Some(v) = adt.variants().get(vidx) {
                                if let Some(fd) = v.fields.get(f) {
                                    fname = fd.name.to_string();
                                }
                            }
                        }
                        ty::Closure(..) => {
                            if let Some(u) = self.upvars.get(f.as_usize()) {
                                fname = format!("<upvar {}>", u);
                                if is_closure_env && upvar.is_none() {
                                    upvar = Some(u.clone());
                                }
                            }
                        }
                        _ => {}
                    }
                    let _ = fty;
                    s = format!("{}.{}", s, fname);
                    projs.push(J::s(format!(".{}", fname)));
                }
                PlaceElem::Index(l) => {
                    s = format!("{}[{}]", s, self.local_name(l));
                    projs.push(J::obj().with("index", J::Int(l.as_usize() as i128)));
                }
                PlaceElem::ConstantIndex {
                    offset,
                    min_length,
                    from_end,
                } => {
                    s = format!(
                        "{}[{}{} of {}]",
                        s,
                        if from_end { "-" } else { "" },
                        offset,
                        min_length
                    );
                    projs.push(
                        J::obj()
                            .with("cindex", J::Int(offset as i128))
                            .with("min_len", J::Int(min_length as i128))
                            .with("from_end", J::Bool(from_end)),
                    );
                }
                PlaceElem::Subslice { from, to, from_end } => {
                    s = format!("{}[{}..{}{}]", s, from, if from_end { "-" } else { "" }, to);
                    projs.push(J::s("subslice"));
                }
                PlaceElem::Downcast(name, vidx) => {
                    let vname = match name {
                        Some(n) => n.to_string(),
                        None => format!("{}", vidx.as_usize()),
                    };
                    s = format!("({} as {})", s, vname);
                    projs.push(J::s(format!("as {}", vname)));
                }
                PlaceElem::OpaqueCast(_) => projs.push(J::s("opaque")),
                PlaceElem::UnwrapUnsafeBinder(_) => projs.push(J::s("unbind")),
            }
            pty = pty.projection_ty(tcx, elem);
            let _ = i;
        }
        let mut j = J::obj();
        j.set("l", J::Int(p.local.as_usize() as i128));
        j.set("s", J::s(s));
        if !projs.is_empty() {
            j.set("p", J::Arr(projs));
        }
        if let Some(u) = upvar {
            j.set("upvar", J::s(u));
        }
        j.set("ty", J::s(ty_str(pty.ty)));
        j
    }

    fn constant(&self, c: &mir::ConstOperand<'tcx>) -> J {
        let tcx = self.tcx;
        let ty = c.const_.ty();
        let mut j = J::obj();
        j.set("ty", J::s(ty_str(ty)));
        match ty.kind() {
            ty::FnDef(did, args) => {
                j.set("fn", J::s(dpath(tcx, *did)));
                j.set(
                    "fn_full",
                    J::s(dpath_args(tcx, *did, args)),
                );
                return j;
            }
            _ => {}
        }
        if let Const::Unevaluated(uv, _) = c.const_ {
            j.set("uneval", J::s(dpath(tcx, uv.def)));
            if uv.promoted.is_some() {
                j.set("promoted", J::Bool(true));
            }
        }
        if let Ok(val) = c.const_.eval(tcx, self.typing_env, c.span) {
            let is_str = matches!(ty.kind(), ty::Ref(_, inner, _) if inner.is_str());
            if is_str {
                if let Some(s) = const_value_str(tcx, val) {
                    j.set("str", J::s(s));
                }
            } else if let Some(si) = val.try_to_scalar_int() {
                let size = si.size();
                match ty.kind() {
                    ty::Int(_) => j.set("int", J::Int(si.to_int(size))),
                    ty::Uint(_) => j.set("int", J::Int(si.to_uint(size) as i128)),
                    ty::Bool => j.set("bool", J::Bool(si.to_uint(size) != 0)),
                    ty::Char => {
                        if let Some(ch) = char::from_u32(si.to_uint(size) as u32) {
                            j.set("char", J::s(ch.to_string()));
                        }
                    }
                    _ => j.set("bits", J::Int(si.to_uint(size) as i128)),
                }
            } else if matches!(val, ConstValue::ZeroSized) {
                j.set("zst", J::Bool(true));
            }
        }
        j
    }

    fn operand(&self, op: &Operand<'tcx>) -> J {
        match op {
            Operand::Copy(p) => J::obj().with("copy", self.place(p)),
            Operand::Move(p) => J::obj().with("move", self.place(p)),
            Operand::Constant(c) => J::obj().with("const", self.constant(c)),
            #[allow(unreachable_patterns)]
            _ => J::obj().with("other", J::s(format!("{:?}", op))),
        }
    }

    fn src(&self, j: &mut J, sp: rustc_span::Span) {
        j.set("sp", span_json(self.tcx, sp));
        let macs = mac_chain(sp);
        if !macs.is_empty() {
            j.set("mac", J::Arr(macs.into_iter().map(J::s).collect()));
        }
    }

    fn stmt(&self, st: &mir::Statement<'tcx>) -> Option<J> {
        match &st.kind {
            StatementKind::Assign(b) => {
                let (place, rv) = &**b;
                let mut j = J::obj();
                j.set("k", J::s("assign"));
                j.set("lhs", self.place(place));
                j.set("rv", self.rvalue(rv));
                self.src(&mut j, st.source_info.span);
                Some(j)
            }
            StatementKind::SetDiscriminant {
                place,
                variant_index,
            } => {
                let mut j = J::obj();
                j.set("k", J::s("setdiscr"));
                j.set("lhs", self.place(place));
                j.set("variant", J::Int(variant_index.as_usize() as i128));
                self.src(&mut j, st.source_info.span);
                Some(j)
            }
            StatementKind::Intrinsic(i) => {
                let mut j = J::obj();
                j.set("k", J::s("intrinsic"));
                j.set("what", J::s(format!("{:?}", i)));
                self.src(&mut j, st.source_info.span);
                Some(j)
            }
            _ => None,
        }
    }

    fn adt_variants(&self, ty: Ty<'tcx>, j: &mut J) {
        if let ty::Adt(adt, _) = ty.kind() {
            j.set("adt", J::s(dpath(self.tcx, adt.did())));
            if adt.is_enum() {
                let mut vs = Vec::new();
                for (vidx, v) in adt.variants().iter_enumerated() {
                    let d = adt.discriminant_for_variant(self.tcx, vidx);
                    vs.push(J::Arr(vec![
                        J::Int(d.val as i128),
                        J::s(v.name.to_string()),
                    ]));
                }
                j.set("variants", J::Arr(vs));
            }
        }
    }

    fn rvalue(&self, rv: &Rvalue<'tcx>) -> J {
        let tcx = self.tcx;
        let mut j = J::obj();
        match rv {
            Rvalue::Use(op, ..) => {
                j.set("rk", J::s("use"));
                j.set("op", self.operand(op));
            }
            Rvalue::Repeat(op, _) => {
                j.set("rk", J::s("repeat"));
                j.set("op", self.operand(op));
            }
            Rvalue::Ref(_, bk, p) => {
                j.set("rk", J::s("ref"));
                j.set(
                    "mut",
                    J::Bool(matches!(bk, mir::BorrowKind::Mut { .. })),
                );
                j.set("bk", J::s(format!("{:?}", bk)));
                j.set("place", self.place(p));
            }
            Rvalue::ThreadLocalRef(did) => {
                j.set("rk", J::s("tls"));
                j.set("def", J::s(dpath(tcx, *did)));
            }
            Rvalue::RawPtr(k, p) => {
                j.set("rk", J::s("rawptr"));
                j.set("kind", J::s(format!("{:?}", k)));
                j.set("place", self.place(p));
            }
            Rvalue::Cast(kind, op, ty) => {
                j.set("rk", J::s("cast"));
                j.set("kind", J::s(format!("{:?}", kind)));
                j.set("op", self.operand(op));
                j.set("to", J::s(ty_str(*ty)));
            }
            Rvalue::BinaryOp(op, b) => {
                j.set("rk", J::s("binop"));
                j.set("op", J::s(format!("{:?}", op)));
                j.set("a", self.operand(&b.0));
                j.set("b", self.operand(&b.1));
            }
            Rvalue::UnaryOp(op, a) => {
                j.set("rk", J::s("unop"));
                j.set("op", J::s(format!("{:?}", op)));
                j.set("a", self.operand(a));
            }
            Rvalue::Discriminant(p) => {
                j.set("rk", J::s("discr"));
                j.set("place", self.place(p));
                let pty = p.ty(self.body, tcx).ty;
                self.adt_variants(pty, &mut j);
            }
            Rvalue::Aggregate(kind, ops) => {
                j.set("rk", J::s("agg"));
                match &**kind {
                    AggregateKind::Array(t) => {
                        j.set("agg", J::s("array"));
                        j.set("elem", J::s(ty_str(*t)));
                    }
                    AggregateKind::Tuple => j.set("agg", J::s("tuple")),
                    AggregateKind::Adt(did, vidx, _, _, _) => {
                        j.set("agg", J::s("adt"));
                        j.set("adt", J::s(dpath(tcx, *did)));
                        let adt = tcx.adt_def(*did);
                        let v = adt.variant(*vidx);
                        if adt.is_enum() {
                            j.set("variant", J::s(v.name.to_string()));
                        }
                        j.set(
                            "fields",
                            J::Arr(v.fields.iter().map(|f| J::s(f.name.to_string())).collect()),
                        );
                    }
                    AggregateKind::Closure(did, _) => {
                        j.set("agg", J::s("closure"));
                        j.set("def", J::s(dpath(tcx, *did)));
                    }
                    AggregateKind::Coroutine(did, _) | AggregateKind::CoroutineClosure(did, _) => {
                        j.set("agg", J::s("coroutine"));
                        j.set("def", J::s(dpath(tcx, *did)));
                    }
                    AggregateKind::RawPtr(..) => j.set("agg", J::s("rawptr")),
                }
                j.set("ops", J::Arr(ops.iter().map(|o| self.operand(o)).collect()));
            }
            Rvalue::CopyForDeref(p) => {
                j.set("rk", J::s("use"));
                j.set("op", J::obj().with("copy", self.place(p)));
                j.set("for_deref", J::Bool(true));
            }
            Rvalue::WrapUnsafeBinder(op, _) => {
                j.set("rk", J::s("wrapbinder"));
                j.set("op", self.operand(op));
            }
            #[allow(unreachable_patterns)]
            other => {
                j.set("rk", J::s("other"));
                j.set("dbg", J::s(format!("{:?}", other)));
            }
        }
        j
    }

    fn unwind(&self, u: &UnwindAction, j: &mut J) {
        if let UnwindAction::Cleanup(bb) = u {
            j.set("unwind", bbj(*bb));
        }
    }

    fn term(&self, t: &mir::Terminator<'tcx>) -> J {
        let tcx = self.tcx;
        let mut j = J::obj();
        self.src(&mut j, t.source_info.span);
        match &t.kind {
            TerminatorKind::Goto { target } => {
                j.set("k", J::s("goto"));
                j.set("target", bbj(*target));
            }
            TerminatorKind::SwitchInt { discr, targets } => {
                j.set("k", J::s("switch"));
                j.set("discr", self.operand(discr));
                let dty = discr.ty(self.body, tcx);
                j.set("discr_ty", J::s(ty_str(dty)));
                let mut ts = Vec::new();
                for (v, bb) in targets.iter() {
                    ts.push(J::Arr(vec![J::Int(v as i128), bbj(bb)]));
                }
                j.set("targets", J::Arr(ts));
                j.set("otherwise", bbj(targets.otherwise()));
            }
            TerminatorKind::UnwindResume => j.set("k", J::s("resume")),
            TerminatorKind::UnwindTerminate(_) => j.set("k", J::s("terminate")),
            TerminatorKind::Return => j.set("k", J::s("return")),
            TerminatorKind::Unreachable => j.set("k", J::s("unreachable")),
            TerminatorKind::Drop {
                place,
                target,
                unwind,
                ..
            } => {
                j.set("k", J::s("drop"));
                j.set("place", self.place(place));
                j.set("target", bbj(*target));
                self.unwind(unwind, &mut j);
            }
            TerminatorKind::Call {
                func,
                args,
                destination,
                target,
                unwind,
                fn_span,
                ..
            } => {
                j.set("k", J::s("call"));
                j.set("func", self.operand(func));
                let fty = func.ty(self.body, tcx);
                if let ty::FnDef(did, gargs) = fty.kind() {
                    j.set("callee", J::s(dpath(tcx, *did)));
                    j.set(
                        "callee_full",
                        J::s(dpath_args(tcx, *did, gargs)),
                    );
                    // resolve trait methods to the impl
                    if let Ok(Some(inst)) = Instance::try_resolve(tcx, self.typing_env, *did, gargs)
                    {
                        let rdid = inst.def_id();
                        j.set("resolved", J::s(dpath(tcx, rdid)));
                        j.set("resolved_kind", J::s(instance_kind(&inst)));
                        if let Some(impl_did) = tcx.impl_of_assoc(rdid) {
                            let self_ty =
                                tcx.type_of(impl_did).instantiate_identity().skip_norm_wip();
                            j.set("resolved_impl_self", J::s(ty_str(self_ty)));
                        }
                        j.set("resolved_local", J::Bool(rdid.is_local()));
                    }
                    // the Self type for trait/inherent methods
                    if let Some(first) = gargs.types().next() {
                        j.set("self_ty", J::s(ty_str(first)));
                    }
                }
                j.set(
                    "args",
                    J::Arr(args.iter().map(|a| self.operand(&a.node)).collect()),
                );
                j.set(
                    "arg_tys",
                    J::Arr(
                        args.iter()
                            .map(|a| J::s(ty_str(a.node.ty(self.body, tcx))))
                            .collect(),
                    ),
                );
                j.set("dest", self.place(destination));
                if let Some(t) = target {
                    j.set("target", bbj(*t));
                }
                self.unwind(unwind, &mut j);
                j.set("fn_sp", span_json(tcx, *fn_span));
            }
            TerminatorKind::TailCall { func, args, .. } => {
                j.set("k", J::s("tailcall"));
                j.set("func", self.operand(func));
                j.set(
                    "args",
                    J::Arr(args.iter().map(|a| self.operand(&a.node)).collect()),
                );
            }
            TerminatorKind::Assert {
                cond,
                expected,
                msg,
                target,
                unwind,
            } => {
                j.set("k", J::s("assert"));
                j.set("cond", self.operand(cond));
                j.set("expected", J::Bool(*expected));
                let kind = match &**msg {
                    AssertKind::BoundsCheck { len, index } => {
                        j.set("len", self.operand(len));
                        j.set("index", self.operand(index));
                        "BoundsCheck".to_string()
                    }
                    AssertKind::Overflow(op, a, b) => {
                        j.set("a", self.operand(a));
                        j.set("b", self.operand(b));
                        format!("Overflow({:?})", op)
                    }
                    AssertKind::OverflowNeg(_) => "OverflowNeg".into(),
                    AssertKind::DivisionByZero(_) => "DivisionByZero".into(),
                    AssertKind::RemainderByZero(_) => "RemainderByZero".into(),
                    AssertKind::MisalignedPointerDereference { .. } => {
                        "MisalignedPointerDereference".into()
                    }
                    AssertKind::NullPointerDereference => "NullPointerDereference".into(),
                    AssertKind::InvalidEnumConstruction(_) => "InvalidEnumConstruction".into(),
                    other => format!("{:?}", std::mem::discriminant(other)),
                };
                j.set("assert", J::s(kind));
                j.set("target", bbj(*target));
                self.unwind(unwind, &mut j);
            }
            TerminatorKind::FalseEdge { real_target, .. } => {
                j.set("k", J::s("goto"));
                j.set("target", bbj(*real_target));
            }
            TerminatorKind::FalseUnwind { real_target, .. } => {
                j.set("k", J::s("goto"));
                j.set("target", bbj(*real_target));
            }
            other => {
                j.set("k", J::s("other"));
                j.set("dbg", J::s(format!("{:?}", std::mem::discriminant(other))));
            }
        }
        j
    }
}

fn instance_kind(inst: &Instance<'_>) -> String {
    let s = format!("{:?}", inst.def);
    match s.find('(') {
        Some(i) => s[..i].to_string(),
        None => s,
    }
}
