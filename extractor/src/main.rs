//! vjsx-facts: a rustc_private driver that dumps two resolved views (typed HIR
//! tree and MIR CFG) of every body of the crates named in VJSX_CRATES as JSON.
//!
//! Used as RUSTC_WORKSPACE_WRAPPER: argv = [self, rustc, args...].
#![feature(rustc_private)]
#![allow(clippy::all)]

extern crate rustc_abi;
extern crate rustc_ast;
extern crate rustc_data_structures;
extern crate rustc_driver;
extern crate rustc_hir;
extern crate rustc_interface;
extern crate rustc_middle;
extern crate rustc_session;
extern crate rustc_span;

mod hirview;
mod json;
mod mirview;

use json::J;
use rustc_driver::{Callbacks, Compilation};
use rustc_interface::interface;
use rustc_middle::ty::TyCtxt;

struct Cb {
    is_test: bool,
}

impl Callbacks for Cb {
    fn after_analysis<'tcx>(
        &mut self,
        _compiler: &interface::Compiler,
        tcx: TyCtxt<'tcx>,
    ) -> Compilation {
        let krate = tcx.crate_name(rustc_hir::def_id::LOCAL_CRATE).to_string();
        let wanted = std::env::var("VJSX_CRATES").unwrap_or_default();
        if !wanted.split(',').any(|w| w == krate) {
            return Compilation::Continue;
        }
        let dir = match std::env::var("VJSX_FACTS_DIR") {
            Ok(d) => d,
            Err(_) => return Compilation::Continue,
        };
        let start = std::time::Instant::now();
        let mut root = J::obj();
        root.set("crate", J::s(krate.clone()));
        root.set("is_test", J::Bool(self.is_test));
        root.set("items", hirview::items(tcx));
        root.set("hir", hirview::bodies(tcx));
        root.set("mir", mirview::bodies(tcx));
        root.set(
            "extract_ms",
            J::Int(start.elapsed().as_millis() as i128),
        );
        let mut out = String::with_capacity(1 << 22);
        root.write(&mut out);
        let name = if self.is_test {
            format!("{}/{}.test.json", dir, krate)
        } else {
            format!("{}/{}.json", dir, krate)
        };
        // one write per process (parallel crates must not interleave)
        let tmp = format!("{}.tmp{}", name, std::process::id());
        std::fs::write(&tmp, out).expect("write facts");
        std::fs::rename(&tmp, &name).expect("rename facts");
        Compilation::Continue
    }
}

fn main() {
    let mut args: Vec<String> = std::env::args().collect();
    // RUSTC_WORKSPACE_WRAPPER passes the real rustc as argv[1]
    if args.len() > 1 && (args[1].ends_with("rustc") || args[1].contains("/rustc")) {
        args.remove(1);
    }
    let is_test = args.iter().any(|a| a == "--test");
    let mut cb = Cb { is_test };
    rustc_driver::run_compiler(&args, &mut cb);
}
