//! Typed HIR view: one tree per fn/method body, closures inlined.
use crate::json::J;
use rustc_hir as hir;
use rustc_hir::def::{CtorOf, DefKind, Res};
use rustc_hir::def_id::{DefId, LocalDefId};
use rustc_middle::ty::print::{with_no_trimmed_paths, with_no_visible_paths};
use rustc_middle::ty::{self, Ty, TyCtxt, TypeckResults};
use rustc_span::{ExpnKind, Span};

pub fn dpath(tcx: TyCtxt<'_>, did: DefId) -> String {
    norm(&with_no_visible_paths!(with_no_trimmed_paths!(tcx.def_path_str(did))))
}

pub fn dpath_args<'tcx>(tcx: TyCtxt<'tcx>, did: DefId, args: ty::GenericArgsRef<'tcx>) -> String {
    norm(&with_no_visible_paths!(with_no_trimmed_paths!(
        tcx.def_path_str_with_args(did, args)
    )))
}

pub fn ty_str<'tcx>(ty: Ty<'tcx>) -> String {
    norm(&with_no_visible_paths!(with_no_trimmed_paths!(format!("{}", ty))))
}

/// `swc_ecma_ast::expr::Expr` -> `swc_ecma_ast::Expr` (private module segments of the AST
/// crates carry no information and would make every matcher depend on swc's file layout)
pub fn norm(s: &str) -> String {
    let mut out = String::with_capacity(s.len());
    let bytes = s.as_bytes();
    let mut i = 0;
    let prefixes = ["swc_ecma_ast::", "swc_atoms::", "swc_common::", "hstr::"];
    'outer: while i < bytes.len() {
        for p in prefixes {
            if s[i..].starts_with(p)
                && (i == 0 || !(bytes[i - 1].is_ascii_alphanumeric() || bytes[i - 1] == b'_'))
            {
                out.push_str(p);
                i += p.len();
                // drop lower-case module segments
                loop {
                    let rest = &s[i..];
                    let seg_end = rest
                        .find(|c: char| !(c.is_ascii_alphanumeric() || c == '_'))
                        .unwrap_or(rest.len());
                    let seg = &rest[..seg_end];
                    if !seg.is_empty()
                        && seg.chars().next().unwrap().is_ascii_lowercase()
                        && rest[seg_end..].starts_with("::")
                        && !rest[seg_end + 2..].starts_with('<')
                    {
                        i += seg_end + 2;
                    } else {
                        break;
                    }
                }
                continue 'outer;
            }
        }
        let ch = s[i..].chars().next().unwrap();
        out.push(ch);
        i += ch.len_utf8();
    }
    out
}

pub fn span_json(tcx: TyCtxt<'_>, sp: Span) -> J {
    let sm = tcx.sess.source_map();
    // use the outermost call-site so line numbers point into the crate's own text
    let sp = sp.source_callsite();
    let lo = sm.lookup_char_pos(sp.lo());
    let hi = sm.lookup_char_pos(sp.hi());
    J::Arr(vec![
        J::Int(lo.line as i128),
        J::Int(lo.col.0 as i128 + 1),
        J::Int(hi.line as i128),
        J::Int(hi.col.0 as i128 + 1),
    ])
}

pub fn span_file(tcx: TyCtxt<'_>, sp: Span) -> String {
    let sm = tcx.sess.source_map();
    let sp = sp.source_callsite();
    let lo = sm.lookup_char_pos(sp.lo());
    format!("{}", lo.file.name.prefer_local_unconditionally())
}

/// macro names from the innermost expansion outwards
pub fn mac_chain(sp: Span) -> Vec<String> {
    let mut out = Vec::new();
    let mut sp = sp;
    let mut guard = 0;
    while sp.from_expansion() && guard < 32 {
        let data = sp.ctxt().outer_expn_data();
        match data.kind {
            ExpnKind::Macro(_, name) => out.push(name.to_string()),
            ExpnKind::Desugaring(d) => out.push(format!("desugar:{:?}", d)),
            ExpnKind::AstPass(p) => out.push(format!("astpass:{:?}", p)),
            ExpnKind::Root => {}
        }
        sp = data.call_site;
        guard += 1;
    }
    out
}

pub fn items(tcx: TyCtxt<'_>) -> J {
    let mut out = Vec::new();
    for id in tcx.hir_free_items() {
        let item = tcx.hir_item(id);
        let did = item.owner_id.to_def_id();
        let mut j = J::obj();
        j.set("path", J::s(dpath(tcx, did)));
        j.set("sp", span_json(tcx, item.span));
        j.set("file", J::s(span_file(tcx, item.span)));
        let macs = mac_chain(item.span);
        if !macs.is_empty() {
            j.set("mac", J::Arr(macs.into_iter().map(J::s).collect()));
        }
        match &item.kind {
            hir::ItemKind::Struct(..) | hir::ItemKind::Enum(..) | hir::ItemKind::Union(..) => {
                let adt = tcx.adt_def(did);
                j.set(
                    "kind",
                    J::s(if adt.is_enum() {
                        "enum"
                    } else if adt.is_struct() {
                        "struct"
                    } else {
                        "union"
                    }),
                );
                let mut variants = Vec::new();
                for (vidx, v) in adt.variants().iter_enumerated() {
                    let mut vj = J::obj();
                    vj.set("name", J::s(v.name.to_string()));
                    if adt.is_enum() {
                        let d = adt.discriminant_for_variant(tcx, vidx);
                        vj.set("discr", J::Int(d.val as i128));
                    }
                    let mut fields = Vec::new();
                    for f in v.fields.iter() {
                        let fty = tcx.type_of(f.did).instantiate_identity().skip_norm_wip();
                        fields.push(
                            J::obj()
                                .with("name", J::s(f.name.to_string()))
                                .with("ty", J::s(ty_str(fty)))
                                .with("vis", J::s(format!("{:?}", f.vis))),
                        );
                    }
                    vj.set("fields", J::Arr(fields));
                    variants.push(vj);
                }
                j.set("variants", J::Arr(variants));
            }
            hir::ItemKind::Impl(imp) => {
                j.set("kind", J::s("impl"));
                let self_ty = tcx.type_of(did).instantiate_identity().skip_norm_wip();
                j.set("self_ty", J::s(ty_str(self_ty)));
                if let Some(tr) = tcx.impl_opt_trait_ref(did) {
                    let tr = tr.instantiate_identity().skip_norm_wip();
                    j.set("trait", J::s(dpath(tcx, tr.def_id)));
                }
                let mut assoc = Vec::new();
                for r in imp.items {
                    let adid = r.owner_id.to_def_id();
                    let mut aj = J::obj();
                    aj.set("path", J::s(dpath(tcx, adid)));
                    aj.set("name", J::s(tcx.item_name(adid).to_string()));
                    let dk = tcx.def_kind(adid);
                    aj.set("dk", J::s(format!("{:?}", dk)));
                    if matches!(dk, DefKind::AssocConst { .. }) {
                        if let Some(v) = eval_const_int(tcx, adid) {
                            aj.set("value", J::Int(v));
                        }
                    }
                    assoc.push(aj);
                }
                j.set("assoc", J::Arr(assoc));
            }
            hir::ItemKind::Fn { .. } => {
                j.set("kind", J::s("fn"));
            }
            hir::ItemKind::Const(..) => {
                j.set("kind", J::s("const"));
                let cty = tcx.type_of(did).instantiate_identity().skip_norm_wip();
                j.set("ty", J::s(ty_str(cty)));
                if let Some(s) = eval_const_str(tcx, did) {
                    j.set("value", J::s(s));
                } else if let Some(v) = eval_const_int(tcx, did) {
                    j.set("value", J::Int(v));
                }
            }
            hir::ItemKind::Static(..) => {
                j.set("kind", J::s("static"));
                let cty = tcx.type_of(did).instantiate_identity().skip_norm_wip();
                j.set("ty", J::s(ty_str(cty)));
                j.set("mutbl", J::Bool(tcx.is_mutable_static(did)));
            }
            hir::ItemKind::Use(..) => {
                continue;
            }
            hir::ItemKind::Mod(..) => {
                j.set("kind", J::s("mod"));
            }
            other => {
                j.set("kind", J::s(format!("{:?}", std::mem::discriminant(other))));
            }
        }
        out.push(j);
    }
    J::Arr(out)
}

fn eval_const_int(tcx: TyCtxt<'_>, did: DefId) -> Option<i128> {
    let ty = tcx.type_of(did).instantiate_identity().skip_norm_wip();
    let val = tcx.const_eval_poly(did).ok()?;
    let scalar = val.try_to_scalar_int()?;
    let size = scalar.size();
    match ty.kind() {
        ty::Int(_) => Some(scalar.to_int(size)),
        ty::Uint(_) => Some(scalar.to_uint(size) as i128),
        ty::Bool => Some(scalar.to_uint(size) as i128),
        ty::Adt(adt, _) => {
            // transparent wrappers such as bitflags' struct(InternalBitFlags(i16))
            let _ = adt;
            Some(scalar.to_int(size))
        }
        _ => None,
    }
}

fn eval_const_str(tcx: TyCtxt<'_>, did: DefId) -> Option<String> {
    let ty = tcx.type_of(did).instantiate_identity().skip_norm_wip();
    if let ty::Ref(_, inner, _) = ty.kind() {
        if inner.is_str() {
            let val = tcx.const_eval_poly(did).ok()?;
            return crate::mirview::const_value_str(tcx, val);
        }
    }
    None
}

pub fn bodies(tcx: TyCtxt<'_>) -> J {
    let mut out = Vec::new();
    for owner in tcx.hir_body_owners() {
        let dk = tcx.def_kind(owner);
        if !matches!(dk, DefKind::Fn | DefKind::AssocFn) {
            continue;
        }
        let body = tcx.hir_body_owned_by(owner);
        let typeck = tcx.typeck(owner);
        let mut cx = Cx { tcx, typeck, owner };
        let mut j = J::obj();
        j.set("path", J::s(dpath(tcx, owner.to_def_id())));
        j.set(
            "dp",
            J::s(tcx.def_path(owner.to_def_id()).to_string_no_crate_verbose()),
        );
        j.set("name", J::s(tcx.item_name(owner.to_def_id()).to_string()));
        j.set("dk", J::s(format!("{:?}", dk)));
        j.set("file", J::s(span_file(tcx, body.value.span)));
        j.set("sp", span_json(tcx, tcx.def_span(owner)));
        let macs = mac_chain(tcx.def_span(owner));
        if !macs.is_empty() {
            j.set("mac", J::Arr(macs.into_iter().map(J::s).collect()));
        }
        if let Some(impl_did) = tcx.impl_of_assoc(owner.to_def_id()) {
            let self_ty = tcx.type_of(impl_did).instantiate_identity().skip_norm_wip();
            j.set("impl_self", J::s(ty_str(self_ty)));
            if let Some(tr) = tcx.impl_opt_trait_ref(impl_did) {
                let tr = tr.instantiate_identity().skip_norm_wip();
                j.set("impl_trait", J::s(dpath(tcx, tr.def_id)));
            }
        }
        let sig = tcx.fn_sig(owner).instantiate_identity().skip_norm_wip().skip_binder();
        j.set(
            "inputs",
            J::Arr(sig.inputs().iter().map(|t| J::s(ty_str(*t))).collect()),
        );
        j.set("output", J::s(ty_str(sig.output())));
        j.set(
            "params",
            J::Arr(body.params.iter().map(|p| cx.pat(p.pat)).collect()),
        );
        j.set("body", cx.expr(body.value));
        out.push(j);
    }
    J::Arr(out)
}

struct Cx<'tcx> {
    tcx: TyCtxt<'tcx>,
    typeck: &'tcx TypeckResults<'tcx>,
    #[allow(dead_code)]
    owner: LocalDefId,
}

impl<'tcx> Cx<'tcx> {
    fn base(&self, k: &str, sp: Span) -> J {
        let mut j = J::obj();
        j.set("k", J::s(k));
        j.set("sp", span_json(self.tcx, sp));
        let macs = mac_chain(sp);
        if !macs.is_empty() {
            j.set("mac", J::Arr(macs.into_iter().map(J::s).collect()));
        }
        j
    }

    fn res(&self, res: Res) -> J {
        match res {
            Res::Local(id) => J::obj()
                .with("r", J::s("local"))
                .with("name", J::s(self.tcx.hir_name(id).to_string()))
                .with("id", J::Int(id.local_id.as_u32() as i128)),
            Res::Def(dk, did) => {
                let mut j = J::obj()
                    .with("r", J::s("def"))
                    .with("dk", J::s(format!("{:?}", dk)))
                    .with("path", J::s(dpath(self.tcx, did)));
                match dk {
                    DefKind::Ctor(of, _) => {
                        let parent = self.tcx.parent(did);
                        match of {
                            CtorOf::Variant => {
                                let adt = self.tcx.parent(parent);
                                j.set("adt", J::s(dpath(self.tcx, adt)));
                                j.set("variant", J::s(self.tcx.item_name(parent).to_string()));
                            }
                            CtorOf::Struct => {
                                j.set("adt", J::s(dpath(self.tcx, parent)));
                            }
                        }
                    }
                    DefKind::Variant => {
                        let adt = self.tcx.parent(did);
                        j.set("adt", J::s(dpath(self.tcx, adt)));
                        j.set("variant", J::s(self.tcx.item_name(did).to_string()));
                    }
                    DefKind::Struct => {
                        j.set("adt", J::s(dpath(self.tcx, did)));
                    }
                    DefKind::Const { .. } | DefKind::AssocConst { .. }
                        if matches!(dk, DefKind::Const { .. })
                            || self.tcx.impl_of_assoc(did).is_some() =>
                    {
                        if let Some(s) = eval_const_str(self.tcx, did) {
                            j.set("value", J::s(s));
                        } else if let Some(v) = eval_const_int(self.tcx, did) {
                            j.set("value", J::Int(v));
                        }
                    }
                    _ => {}
                }
                j
            }
            Res::SelfCtor(did) => J::obj()
                .with("r", J::s("selfctor"))
                .with("path", J::s(dpath(self.tcx, did))),
            Res::SelfTyAlias { alias_to, .. } => {
                let ty = self.tcx.type_of(alias_to).instantiate_identity().skip_norm_wip();
                let mut j = J::obj().with("r", J::s("selfty")).with("ty", J::s(ty_str(ty)));
                if let ty::Adt(adt, _) = ty.kind() {
                    j.set("adt", J::s(dpath(self.tcx, adt.did())));
                }
                j
            }
            other => J::obj().with("r", J::s(format!("{:?}", other))),
        }
    }

    fn block(&mut self, b: &'tcx hir::Block<'tcx>) -> J {
        let mut j = self.base("Block", b.span);
        let mut stmts = Vec::new();
        for s in b.stmts {
            match s.kind {
                hir::StmtKind::Let(l) => {
                    let mut lj = self.base("Let", l.span);
                    lj.set("pat", self.pat(l.pat));
                    if let Some(init) = l.init {
                        lj.set("init", self.expr(init));
                    }
                    if let Some(els) = l.els {
                        lj.set("else", self.block(els));
                    }
                    stmts.push(lj);
                }
                hir::StmtKind::Item(_) => {
                    stmts.push(self.base("Item", s.span));
                }
                hir::StmtKind::Expr(e) => stmts.push(self.expr(e)),
                hir::StmtKind::Semi(e) => {
                    let mut ej = self.expr(e);
                    ej.set("semi", J::Bool(true));
                    stmts.push(ej);
                }
            }
        }
        j.set("stmts", J::Arr(stmts));
        if let Some(e) = b.expr {
            j.set("expr", self.expr(e));
        }
        j
    }

    fn qpath_adt(&self, res: Res, ty: Ty<'tcx>, j: &mut J) {
        // fill adt + variant for a struct-literal / struct-pattern path
        match res {
            Res::Def(DefKind::Variant, did) => {
                let adt = self.tcx.parent(did);
                j.set("adt", J::s(dpath(self.tcx, adt)));
                j.set("variant", J::s(self.tcx.item_name(did).to_string()));
            }
            Res::Def(DefKind::Struct, did) | Res::Def(DefKind::Union, did) => {
                j.set("adt", J::s(dpath(self.tcx, did)));
            }
            _ => {
                if let ty::Adt(adt, _) = ty.kind() {
                    j.set("adt", J::s(dpath(self.tcx, adt.did())));
                }
            }
        }
    }

    fn expr(&mut self, e: &'tcx hir::Expr<'tcx>) -> J {
        let tcx = self.tcx;
        let ty = self.typeck.expr_ty(e);
        let tya = self.typeck.expr_ty_adjusted(e);
        let mut j;
        match &e.kind {
            hir::ExprKind::ConstBlock(_) => {
                j = self.base("ConstBlock", e.span);
            }
            hir::ExprKind::Array(items) => {
                j = self.base("Array", e.span);
                j.set("items", J::Arr(items.iter().map(|x| self.expr(x)).collect()));
            }
            hir::ExprKind::Call(f, args) => {
                // constructor call?
                let mut ctor = None;
                if let hir::ExprKind::Path(qp) = &f.kind {
                    let res = self.typeck.qpath_res(qp, f.hir_id);
                    match res {
                        Res::Def(DefKind::Ctor(..), _) | Res::SelfCtor(_) => ctor = Some(res),
                        _ => {}
                    }
                }
                if let Some(res) = ctor {
                    j = self.base("Ctor", e.span);
                    let r = self.res(res);
                    if let J::Obj(items) = &r {
                        for (k, v) in items {
                            if *k == "adt" || *k == "variant" || *k == "path" {
                                j.set(k, v.clone());
                            }
                        }
                    }
                    if let Res::SelfCtor(_) = res {
                        if let ty::Adt(adt, _) = ty.kind() {
                            j.set("adt", J::s(dpath(tcx, adt.did())));
                        }
                    }
                    j.set("args", J::Arr(args.iter().map(|x| self.expr(x)).collect()));
                } else {
                    j = self.base("Call", e.span);
                    // resolved callee when the callee expression is a path to a fn
                    if let hir::ExprKind::Path(qp) = &f.kind {
                        let res = self.typeck.qpath_res(qp, f.hir_id);
                        if let Res::Def(_, did) = res {
                            j.set("callee", J::s(dpath(tcx, did)));
                        }
                        let fty = self.typeck.expr_ty(f);
                        if let ty::FnDef(did, args) = fty.kind() {
                            j.set("callee", J::s(dpath(tcx, *did)));
                            if did.is_local() {
                                j.set(
                                    "callee_dp",
                                    J::s(tcx.def_path(*did).to_string_no_crate_verbose()),
                                );
                            }
                            j.set(
                                "callee_full",
                                J::s(dpath_args(tcx, *did, args)),
                            );
                        }
                    }
                    j.set("f", self.expr(f));
                    j.set("args", J::Arr(args.iter().map(|x| self.expr(x)).collect()));
                }
            }
            hir::ExprKind::MethodCall(seg, recv, args, _) => {
                j = self.base("MethodCall", e.span);
                j.set("method", J::s(seg.ident.name.to_string()));
                if let Some(did) = self.typeck.type_dependent_def_id(e.hir_id) {
                    j.set("callee", J::s(dpath(tcx, did)));
                    if let Some(ga) = self.typeck.node_args_opt(e.hir_id) {
                        j.set(
                            "callee_full",
                            J::s(dpath_args(tcx, did, ga)),
                        );
                    }
                }
                j.set("recv", self.expr(recv));
                j.set("args", J::Arr(args.iter().map(|x| self.expr(x)).collect()));
            }
            hir::ExprKind::Use(x, _) => {
                j = self.base("Use", e.span);
                j.set("e", self.expr(x));
            }
            hir::ExprKind::Tup(items) => {
                j = self.base("Tup", e.span);
                j.set("items", J::Arr(items.iter().map(|x| self.expr(x)).collect()));
            }
            hir::ExprKind::Binary(op, a, b) => {
                j = self.base("Binary", e.span);
                j.set("op", J::s(op.node.as_str()));
                if let Some(did) = self.typeck.type_dependent_def_id(e.hir_id) {
                    j.set("callee", J::s(dpath(tcx, did)));
                }
                j.set("l", self.expr(a));
                j.set("r", self.expr(b));
            }
            hir::ExprKind::Unary(op, a) => {
                j = self.base("Unary", e.span);
                j.set("op", J::s(op.as_str()));
                if let Some(did) = self.typeck.type_dependent_def_id(e.hir_id) {
                    j.set("callee", J::s(dpath(tcx, did)));
                }
                j.set("e", self.expr(a));
            }
            hir::ExprKind::Lit(lit) => {
                j = self.base("Lit", e.span);
                lit_json(&lit.node, &mut j);
            }
            hir::ExprKind::Cast(a, _) => {
                j = self.base("Cast", e.span);
                j.set("e", self.expr(a));
            }
            hir::ExprKind::Type(a, _) => {
                j = self.base("Type", e.span);
                j.set("e", self.expr(a));
            }
            hir::ExprKind::DropTemps(a) => {
                // transparent
                return self.expr(a);
            }
            hir::ExprKind::Let(l) => {
                j = self.base("LetExpr", e.span);
                j.set("pat", self.pat(l.pat));
                j.set("init", self.expr(l.init));
            }
            hir::ExprKind::If(c, t, el) => {
                j = self.base("If", e.span);
                j.set("cond", self.expr(c));
                j.set("then", self.expr(t));
                if let Some(el) = el {
                    j.set("else", self.expr(el));
                }
            }
            hir::ExprKind::Loop(b, _, src, _) => {
                j = self.base("Loop", e.span);
                j.set("src", J::s(format!("{:?}", src)));
                j.set("body", self.block(b));
            }
            hir::ExprKind::Match(scrut, arms, src) => {
                j = self.base("Match", e.span);
                j.set("src", J::s(format!("{:?}", src)));
                j.set("scrut", self.expr(scrut));
                let mut aj = Vec::new();
                for arm in *arms {
                    let mut a = self.base("Arm", arm.span);
                    a.set("pat", self.pat(arm.pat));
                    if let Some(g) = arm.guard {
                        a.set("guard", self.expr(g));
                    }
                    a.set("body", self.expr(arm.body));
                    aj.push(a);
                }
                j.set("arms", J::Arr(aj));
            }
            hir::ExprKind::Closure(c) => {
                j = self.base("Closure", e.span);
                j.set("def", J::s(dpath(tcx, c.def_id.to_def_id())));
                j.set("move", J::Bool(matches!(c.capture_clause, hir::CaptureBy::Value { .. })));
                let caps = tcx.closure_captures(c.def_id);
                j.set(
                    "captures",
                    J::Arr(
                        caps.iter()
                            .map(|cp| {
                                J::obj()
                                    .with("place", J::s(cp.to_string(tcx)))
                                    .with("kind", J::s(format!("{:?}", cp.info.capture_kind)))
                                    .with("mut", J::Bool(cp.mutability.is_mut()))
                            })
                            .collect(),
                    ),
                );
                let body = tcx.hir_body(c.body);
                j.set(
                    "params",
                    J::Arr(body.params.iter().map(|p| self.pat(p.pat)).collect()),
                );
                j.set("body", self.expr(body.value));
            }
            hir::ExprKind::Block(b, _) => {
                j = self.block(b);
            }
            hir::ExprKind::Assign(l, r, _) => {
                j = self.base("Assign", e.span);
                j.set("l", self.expr(l));
                j.set("r", self.expr(r));
            }
            hir::ExprKind::AssignOp(op, l, r) => {
                j = self.base("AssignOp", e.span);
                j.set("op", J::s(op.node.as_str()));
                j.set("l", self.expr(l));
                j.set("r", self.expr(r));
            }
            hir::ExprKind::Field(a, ident) => {
                j = self.base("Field", e.span);
                j.set("name", J::s(ident.name.to_string()));
                j.set("e", self.expr(a));
            }
            hir::ExprKind::Index(a, i, _) => {
                j = self.base("Index", e.span);
                if let Some(did) = self.typeck.type_dependent_def_id(e.hir_id) {
                    j.set("callee", J::s(dpath(tcx, did)));
                }
                j.set("e", self.expr(a));
                j.set("i", self.expr(i));
            }
            hir::ExprKind::Path(qp) => {
                j = self.base("Path", e.span);
                let res = self.typeck.qpath_res(qp, e.hir_id);
                j.set("res", self.res(res));
            }
            hir::ExprKind::AddrOf(_, m, a) => {
                j = self.base("Ref", e.span);
                j.set("mut", J::Bool(m.is_mut()));
                j.set("e", self.expr(a));
            }
            hir::ExprKind::Break(_, a) => {
                j = self.base("Break", e.span);
                if let Some(a) = a {
                    j.set("e", self.expr(a));
                }
            }
            hir::ExprKind::Continue(_) => {
                j = self.base("Continue", e.span);
            }
            hir::ExprKind::Ret(a) => {
                j = self.base("Ret", e.span);
                if let Some(a) = a {
                    j.set("e", self.expr(a));
                }
            }
            hir::ExprKind::Become(a) => {
                j = self.base("Become", e.span);
                j.set("e", self.expr(a));
            }
            hir::ExprKind::Struct(qp, fields, tail) => {
                j = self.base("Struct", e.span);
                let res = self.typeck.qpath_res(qp, e.hir_id);
                self.qpath_adt(res, ty, &mut j);
                let mut fj = Vec::new();
                for f in *fields {
                    let mut x = J::obj();
                    x.set("name", J::s(f.ident.name.to_string()));
                    x.set("e", self.expr(f.expr));
                    fj.push(x);
                }
                j.set("fields", J::Arr(fj));
                match tail {
                    hir::StructTailExpr::Base(b) => j.set("base", self.expr(b)),
                    hir::StructTailExpr::DefaultFields(_) => j.set("base_default", J::Bool(true)),
                    _ => {}
                }
            }
            hir::ExprKind::Repeat(a, _) => {
                j = self.base("Repeat", e.span);
                j.set("e", self.expr(a));
            }
            hir::ExprKind::Yield(a, _) => {
                j = self.base("Yield", e.span);
                j.set("e", self.expr(a));
            }
            hir::ExprKind::InlineAsm(_) => {
                j = self.base("InlineAsm", e.span);
            }
            hir::ExprKind::OffsetOf(..) => {
                j = self.base("OffsetOf", e.span);
            }
            hir::ExprKind::UnsafeBinderCast(_, a, _) => {
                j = self.base("UnsafeBinderCast", e.span);
                j.set("e", self.expr(a));
            }
            hir::ExprKind::Err(_) => {
                j = self.base("Err", e.span);
            }
        }
        j.set("ty", J::s(ty_str(ty)));
        if tya != ty {
            j.set("tya", J::s(ty_str(tya)));
        }
        j
    }

    fn pat_expr(&mut self, pe: &'tcx hir::PatExpr<'tcx>) -> J {
        match &pe.kind {
            hir::PatExprKind::Lit { lit, negated } => {
                let mut j = self.base("PLit", pe.span);
                lit_json(&lit.node, &mut j);
                if *negated {
                    j.set("neg", J::Bool(true));
                }
                j
            }
            hir::PatExprKind::Path(qp) => {
                let mut j = self.base("PPath", pe.span);
                let res = self.typeck.qpath_res(qp, pe.hir_id);
                j.set("res", self.res(res));
                j
            }
        }
    }

    fn pat(&mut self, p: &'tcx hir::Pat<'tcx>) -> J {
        let ty = self.typeck.pat_ty(p);
        let mut j;
        match &p.kind {
            hir::PatKind::Missing => j = self.base("PMissing", p.span),
            hir::PatKind::Wild => j = self.base("PWild", p.span),
            hir::PatKind::Binding(mode, id, ident, sub) => {
                j = self.base("PBind", p.span);
                j.set("name", J::s(ident.name.to_string()));
                j.set("id", J::Int(id.local_id.as_u32() as i128));
                j.set("mode", J::s(format!("{:?}", mode)));
                if let Some(sub) = sub {
                    j.set("sub", self.pat(sub));
                }
            }
            hir::PatKind::Struct(qp, fields, rest) => {
                j = self.base("PStruct", p.span);
                let res = self.typeck.qpath_res(qp, p.hir_id);
                self.qpath_adt(res, ty, &mut j);
                let mut fj = Vec::new();
                for f in *fields {
                    let mut x = J::obj();
                    x.set("name", J::s(f.ident.name.to_string()));
                    x.set("p", self.pat(f.pat));
                    fj.push(x);
                }
                j.set("fields", J::Arr(fj));
                j.set("rest", J::Bool(rest.is_some()));
            }
            hir::PatKind::TupleStruct(qp, pats, ddpos) => {
                j = self.base("PTupleStruct", p.span);
                let res = self.typeck.qpath_res(qp, p.hir_id);
                let r = self.res(res);
                if let J::Obj(items) = &r {
                    for (k, v) in items {
                        if *k == "adt" || *k == "variant" || *k == "path" {
                            j.set(k, v.clone());
                        }
                    }
                }
                j.set("pats", J::Arr(pats.iter().map(|x| self.pat(x)).collect()));
                if let Some(pos) = ddpos.as_opt_usize() {
                    j.set("dotdot", J::Int(pos as i128));
                }
            }
            hir::PatKind::Or(pats) => {
                j = self.base("POr", p.span);
                j.set("pats", J::Arr(pats.iter().map(|x| self.pat(x)).collect()));
            }
            hir::PatKind::Never => j = self.base("PNever", p.span),
            hir::PatKind::Tuple(pats, ddpos) => {
                j = self.base("PTuple", p.span);
                j.set("pats", J::Arr(pats.iter().map(|x| self.pat(x)).collect()));
                if let Some(pos) = ddpos.as_opt_usize() {
                    j.set("dotdot", J::Int(pos as i128));
                }
            }
            hir::PatKind::Box(a) => {
                j = self.base("PBox", p.span);
                j.set("p", self.pat(a));
            }
            hir::PatKind::Deref(a) => {
                j = self.base("PDeref", p.span);
                j.set("p", self.pat(a));
            }
            hir::PatKind::Ref(a, _, m) => {
                j = self.base("PRef", p.span);
                j.set("mut", J::Bool(m.is_mut()));
                j.set("p", self.pat(a));
            }
            hir::PatKind::Expr(pe) => {
                j = self.pat_expr(pe);
            }
            hir::PatKind::Guard(a, g) => {
                j = self.base("PGuard", p.span);
                j.set("p", self.pat(a));
                j.set("guard", self.expr(g));
            }
            hir::PatKind::Range(lo, hi, end) => {
                j = self.base("PRange", p.span);
                if let Some(lo) = lo {
                    j.set("lo", self.pat_expr(lo));
                }
                if let Some(hi) = hi {
                    j.set("hi", self.pat_expr(hi));
                }
                j.set("end", J::s(format!("{:?}", end)));
            }
            hir::PatKind::Slice(before, mid, after) => {
                j = self.base("PSlice", p.span);
                j.set("before", J::Arr(before.iter().map(|x| self.pat(x)).collect()));
                if let Some(mid) = mid {
                    j.set("mid", self.pat(mid));
                }
                j.set("after", J::Arr(after.iter().map(|x| self.pat(x)).collect()));
            }
            hir::PatKind::Err(_) => j = self.base("PErr", p.span),
        }
        j.set("ty", J::s(ty_str(ty)));
        j
    }
}

fn lit_json(lit: &rustc_ast::LitKind, j: &mut J) {
    use rustc_ast::LitKind::*;
    match lit {
        Str(s, _) => {
            j.set("lit", J::s("str"));
            j.set("v", J::s(s.to_string()));
        }
        ByteStr(b, _) | CStr(b, _) => {
            j.set("lit", J::s("bytes"));
            j.set("v", J::s(String::from_utf8_lossy(b.as_byte_str()).to_string()));
            j.set(
                "vb",
                J::Arr(b.as_byte_str().iter().map(|x| J::Int(*x as i128)).collect()),
            );
        }
        Byte(b) => {
            j.set("lit", J::s("byte"));
            j.set("v", J::Int(*b as i128));
        }
        Char(c) => {
            j.set("lit", J::s("char"));
            j.set("v", J::s(c.to_string()));
        }
        Int(v, _) => {
            j.set("lit", J::s("int"));
            j.set("v", J::Int(v.get() as i128));
        }
        Float(s, _) => {
            j.set("lit", J::s("float"));
            j.set("v", J::s(s.to_string()));
        }
        Bool(b) => {
            j.set("lit", J::s("bool"));
            j.set("v", J::Bool(*b));
        }
        Err(_) => {
            j.set("lit", J::s("err"));
        }
    }
}
