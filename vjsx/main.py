"""./check <ID> [--tier quick|thorough]"""
import importlib, os, sys
from . import engine


def main(argv):
    if len(argv) < 2:
        print("usage: check <property id> [--tier quick|thorough]")
        return 2
    pid = argv[1]
    tier = os.environ.get("VERIF_TIER", "quick")
    if "--tier" in argv:
        tier = argv[argv.index("--tier") + 1]
    if tier not in ("quick", "thorough"):
        tier = "quick"
    seed = int(os.environ.get("VERIF_SEED", "0") or 0)
    try:
        mod = importlib.import_module("vjsx.rules." + pid.lower())
    except ModuleNotFoundError:
        print("no rules for", pid)
        return 2
    return engine.run_property(pid, mod.rules, mod.LEVEL, mod.EXPLANATION, mod.ASSUMPTIONS, mod.TRUSTED, tier=tier, seed=seed)


if __name__ == "__main__":
    sys.exit(main(sys.argv))
