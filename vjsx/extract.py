"""Run the vjsx-facts driver over /repo (fresh on every source change) and load the facts."""
import fcntl, glob, hashlib, json, os, shutil, subprocess, sys, time

VERIF = os.path.dirname(os.path.dirname(os.path.abspath(__file__)))
REPO = os.environ.get("VJSX_REPO", "/repo")
CACHE = os.environ.get("VJSX_CACHE") or os.path.join(VERIF, ".cache")   # tools/parallel.py gives each worker its own
DRIVER_TARGET = os.path.join(CACHE, "extractor-target")
DRIVER = os.path.join(DRIVER_TARGET, "debug", "vjsx-facts")
CRATES = ["swc_vue_jsx_visitor", "swc_plugin_vue_jsx"]
MEMBERS = ["swc-vue-jsx-visitor", "swc-plugin-vue-jsx"]


class CannotAnalyse(Exception):
    pass


def _sysroot():
    return subprocess.check_output(["rustc", "+nightly", "--print", "sysroot"], text=True).strip()


def source_hash(repo=REPO):
    h = hashlib.sha256()
    files = []
    for root, dirs, fs in os.walk(repo):
        dirs[:] = [d for d in dirs if d not in ("target", ".git", "node_modules")]
        for f in fs:
            if f.endswith(".rs") or f in ("Cargo.toml", "Cargo.lock"):
                files.append(os.path.join(root, f))
    for f in sorted(files):
        h.update(os.path.relpath(f, repo).encode())
        h.update(b"\0")
        with open(f, "rb") as fh:
            h.update(fh.read())
        h.update(b"\0")
    # the driver itself is part of the key
    for f in sorted(glob.glob(os.path.join(VERIF, "extractor", "src", "*.rs"))):
        with open(f, "rb") as fh:
            h.update(fh.read())
    return h.hexdigest()


def build_driver():
    env = dict(os.environ, CARGO_TARGET_DIR=DRIVER_TARGET, CARGO_NET_OFFLINE="true")
    r = subprocess.run(["cargo", "build", "--offline"], cwd=os.path.join(VERIF, "extractor"),
                       env=env, capture_output=True, text=True)
    if r.returncode != 0 or not os.path.exists(DRIVER):
        raise CannotAnalyse("driver build failed:\n" + r.stderr[-4000:])


def _run_extraction(repo, facts_dir, target_dir, extra_args=(), test_profile=False, crates=None, members=None):
    os.makedirs(facts_dir, exist_ok=True)
    for f in glob.glob(os.path.join(facts_dir, "*.json")):
        os.remove(f)
    crates = crates or CRATES
    members = members or MEMBERS
    # cargo's freshness cache would skip the wrapper: drop the members' fingerprints
    for m in members:
        for d in glob.glob(os.path.join(target_dir, "debug", ".fingerprint", m + "-*")):
            shutil.rmtree(d, ignore_errors=True)
    env = dict(os.environ)
    env.update({
        "LD_LIBRARY_PATH": os.path.join(_sysroot(), "lib"),
        "RUSTFLAGS": "-Zmir-opt-level=0 -Coverflow-checks=on -Awarnings",
        "RUSTC_WORKSPACE_WRAPPER": DRIVER,
        "CARGO_TARGET_DIR": target_dir,
        "CARGO_NET_OFFLINE": "true",
        "VJSX_CRATES": ",".join(crates),
        "VJSX_FACTS_DIR": facts_dir,
    })
    cmd = ["cargo", "+nightly", "check", "--offline"] + (["--workspace"] if crates is CRATES else []) + list(extra_args)
    r = subprocess.run(cmd, cwd=repo, env=env, capture_output=True, text=True)
    if r.returncode != 0:
        raise CannotAnalyse("cargo check under the extractor failed:\n" + r.stderr[-6000:])
    for c in crates:
        if not (os.path.exists(os.path.join(facts_dir, c + ".json")) or (test_profile and os.path.exists(os.path.join(facts_dir, c + ".test.json")))):
            raise CannotAnalyse("fact file for %s was not freshly written (fail closed)" % c)


def ensure_controls():
    """facts of /verif/controls (positive examples for the zero-count rules); cached by the crate's own hash"""
    os.makedirs(CACHE, exist_ok=True)
    lock = open(os.path.join(CACHE, "extract.lock"), "w")
    fcntl.flock(lock, fcntl.LOCK_EX)
    try:
        if not os.path.exists(DRIVER) or _driver_stale():
            build_driver()
        cdir = os.path.join(VERIF, "controls")
        h = hashlib.sha256()
        for f in sorted(glob.glob(os.path.join(cdir, "src", "*.rs")) + [os.path.join(cdir, "Cargo.toml")] + glob.glob(os.path.join(VERIF, "extractor", "src", "*.rs"))):
            h.update(open(f, "rb").read())
        h = h.hexdigest()
        out = os.path.join(CACHE, "facts-controls")
        stamp = os.path.join(out, "HASH")
        if not (os.path.exists(stamp) and open(stamp).read().strip() == h and os.path.exists(os.path.join(out, "vjsx_controls.json"))):
            if os.path.exists(stamp):
                os.remove(stamp)
            # same dependency versions as /repo
            shutil.copy(os.path.join(REPO, "Cargo.lock"), os.path.join(cdir, "Cargo.lock"))
            _run_extraction(cdir, out, os.path.join(CACHE, "target"), extra_args=(), crates=["vjsx_controls"], members=["vjsx-controls"])
            with open(stamp, "w") as fh:
                fh.write(h)
        return out
    finally:
        fcntl.flock(lock, fcntl.LOCK_UN)
        lock.close()


def ensure_facts(repo=REPO, want_test=False):
    """Returns (facts_dir, hash, extracted_now, seconds)."""
    os.makedirs(CACHE, exist_ok=True)
    lock = open(os.path.join(CACHE, "extract.lock"), "w")
    fcntl.flock(lock, fcntl.LOCK_EX)
    try:
        t0 = time.time()
        if not os.path.exists(DRIVER) or _driver_stale():
            build_driver()
        h = source_hash(repo)
        facts_dir = os.path.join(CACHE, "facts")
        stamp = os.path.join(facts_dir, "HASH")
        fresh = False
        if os.path.exists(stamp) and open(stamp).read().strip() == h and all(
                os.path.exists(os.path.join(facts_dir, c + ".json")) for c in CRATES):
            fresh = True
        if not fresh:
            if os.path.exists(stamp):
                os.remove(stamp)
            _run_extraction(repo, facts_dir, os.path.join(CACHE, "target"))
            with open(stamp, "w") as fh:
                fh.write(h)
        if want_test:
            tdir = os.path.join(CACHE, "facts-test")
            tstamp = os.path.join(tdir, "HASH")
            if not (os.path.exists(tstamp) and open(tstamp).read().strip() == h):
                if os.path.exists(tstamp):
                    os.remove(tstamp)
                _run_extraction(repo, tdir, os.path.join(CACHE, "target"), ["--profile", "test"], test_profile=True)
                with open(tstamp, "w") as fh:
                    fh.write(h)
        return facts_dir, h, (not fresh), time.time() - t0
    finally:
        fcntl.flock(lock, fcntl.LOCK_UN)
        lock.close()


def _driver_stale():
    try:
        dm = os.path.getmtime(DRIVER)
    except OSError:
        return True
    for f in glob.glob(os.path.join(VERIF, "extractor", "src", "*.rs")) + [
            os.path.join(VERIF, "extractor", "Cargo.toml")]:
        if os.path.getmtime(f) > dm:
            return True
    return False


def extract_tree(repo, out_dir, target_dir=None):
    """Extract facts for an arbitrary tree (controls crate, scratch variants)."""
    if not os.path.exists(DRIVER) or _driver_stale():
        build_driver()
    _run_extraction(repo, out_dir, target_dir or os.path.join(CACHE, "target"))
    return out_dir


if __name__ == "__main__":
    d, h, now, s = ensure_facts()
    print(d, h[:12], "extracted" if now else "cached", "%.1fs" % s)
