"""Load the extractor's fact files and offer walkers / indexes over both views."""
import json, os, re

AST = "swc_ecma_ast::"          # rustc real-path prefix of AST items (module segments dropped by the extractor)
VISITOR_CRATE = "swc_vue_jsx_visitor"
PLUGIN_CRATE = "swc_plugin_vue_jsx"


class Facts:
    def __init__(self, facts_dir, rename=None):
        """rename: {crate name in the fact file: name to present it as} (used for the positive-controls crate)"""
        self.dir = facts_dir
        self.crates = {}
        for f in sorted(os.listdir(facts_dir)):
            if f.endswith(".json"):
                with open(os.path.join(facts_dir, f)) as fh:
                    d = json.load(fh)
                if rename and d["crate"] in rename:
                    d["crate"] = rename[d["crate"]]
                self.crates[d["crate"]] = d
        self.hir = []      # all HIR bodies (fn / assoc fn), each tagged with crate
        self.mir = []      # all MIR bodies incl. closures
        self.items = []
        for cname, d in self.crates.items():
            for b in d["hir"]:
                b["crate"] = cname
                self.hir.append(b)
            for b in d["mir"]:
                b["crate"] = cname
                self.mir.append(b)
            for it in d["items"]:
                it["crate"] = cname
                self.items.append(it)
        self.renamed = {}
        self._index()

    def _index(self):
        self.mir_by_path = {(b["crate"], b["path"]): b for b in self.mir}
        self.hir_by_path = {(b["crate"], b["path"]): b for b in self.hir}
        # closures grouped under their root fn
        self.closures_of = {}
        for b in self.mir:
            if b["dk"] == "Closure":
                self.closures_of.setdefault((b["crate"], b["parent"]), []).append(b)

    def rename_paths(self, mapping):
        """mapping: {local function path: new path}. Rewrites every occurrence (bodies, closures below them, resolved callees,
        path resolutions, method names) in place, so the rules see the reference names whatever the functions are called."""
        if not mapping:
            return
        olds = sorted(mapping, key=len, reverse=True)

        def fix(v):
            for o in olds:
                if v == o:
                    return mapping[o]
                if v.startswith(o + "::"):
                    return mapping[o] + v[len(o):]
                # crate-qualified form
                i = v.find("::" + o)
                if i > 0 and v[:i] in (VISITOR_CRATE, PLUGIN_CRATE) and (len(v) == i + 2 + len(o) or v[i + 2 + len(o):].startswith("::")):
                    return v[:i + 2] + mapping[o] + v[i + 2 + len(o):]
            return v

        def rec(x):
            if isinstance(x, dict):
                for k, v in x.items():
                    if isinstance(v, str):
                        if k in ("path", "callee", "callee_full", "resolved", "parent", "def", "fn"):
                            nv = fix(v)
                            if nv != v:
                                x[k] = nv
                                if k == "callee" and "method" in x:
                                    x["method"] = nv.split("::")[-1]
                    else:
                        rec(v)
            elif isinstance(x, list):
                for y in x:
                    rec(y)
        for b in self.hir + self.mir:
            rec(b)
            if b.get("dk") != "Closure" and "name" in b:
                b["name"] = b["path"].split("::")[-1]
        self.renamed.update(mapping)
        self._index()

    # ---- body classification -------------------------------------------------
    def user_hir(self, crate=VISITOR_CRATE):
        """HIR bodies written by hand (not derive / bitflags expansions)."""
        return [b for b in self.hir if b["crate"] == crate and not b.get("mac")]

    def user_mir(self, crate=VISITOR_CRATE):
        out = []
        for b in self.mir:
            if b["crate"] != crate:
                continue
            if b.get("mac"):
                continue
            if b["dk"] == "Closure":
                root = self.mir_by_path.get((b["crate"], b["parent"]))
                if root is not None and root.get("mac"):
                    continue
            out.append(b)
        return out

    def mir_family(self, body):
        """a root MIR body together with its (nested) closures"""
        root_path = body["parent"] if body["dk"] == "Closure" else body["path"]
        fam = [self.mir_by_path[(body["crate"], root_path)]] if (body["crate"], root_path) in self.mir_by_path else []
        fam += [c for c in self.closures_of.get((body["crate"], root_path), []) if not c.get("analysed_inlined")]
        return fam

    def hir_fn(self, name, crate=VISITOR_CRATE):
        r = [b for b in self.hir if b["crate"] == crate and b["name"] == name and not b.get("mac")]
        return r

    def rename_fields(self, struct_name, mapping):
        """mapping: {field name of `struct_name` on this tree: reference name}. Rewrites the struct item, HIR field nodes, MIR place
        projections / renderings / aggregate field lists and capture names in place."""
        if not mapping:
            return
        pats = [(re.compile(r"(?<=\.)%s\b" % re.escape(o)), n) for o, n in mapping.items()]

        def fix(v):
            for pat, n in pats:
                v = pat.sub(n, v)
            return v

        def rec(x):
            if isinstance(x, dict):
                if x.get("k") == "Field" and x.get("name") in mapping:
                    x["name"] = mapping[x["name"]]
                if x.get("k") in ("Struct", "PStruct") and str(x.get("adt") or "").split("::")[-1].split("<")[0] == struct_name:
                    for f in x.get("fields") or []:
                        if isinstance(f, dict) and f.get("name") in mapping:
                            f["name"] = mapping[f["name"]]
                if x.get("rk") == "agg" and str(x.get("adt") or "").split("::")[-1].split("<")[0] == struct_name and isinstance(x.get("fields"), list):
                    x["fields"] = [mapping.get(f, f) for f in x["fields"]]
                for k, v in x.items():
                    if isinstance(v, str):
                        if k in ("s", "upvar", "place", "name") and "." in v:
                            x[k] = fix(v)
                    elif isinstance(v, list) and k == "p":
                        x[k] = [fix(e) if isinstance(e, str) else e for e in v]
                        for e in v:
                            rec(e)
                    else:
                        rec(v)
            elif isinstance(x, list):
                for y in x:
                    rec(y)
        for b in self.hir + self.mir:
            rec(b)
        for it in self.items:
            if it.get("kind") == "struct" and it["path"].split("::")[-1].split("<")[0] == struct_name:
                for f in it["variants"][0]["fields"]:
                    if f["name"] in mapping:
                        f["name"] = mapping[f["name"]]
        self._index()

    def rename_variants(self, enum_path, mapping):
        """present the variants of a local enum under other names (an Option-shaped enum as None / Some)"""
        pats = [(re.compile(r"\bas %s\b" % re.escape(o)), "as " + n) for o, n in mapping.items()]

        def rec(x):
            if isinstance(x, dict):
                if x.get("adt") == enum_path:
                    if x.get("variant") in mapping:
                        x["variant"] = mapping[x["variant"]]
                    if isinstance(x.get("variants"), list):
                        x["variants"] = [[v[0], mapping.get(v[1], v[1])] for v in x["variants"]]
                for k, v in x.items():
                    if isinstance(v, str):
                        if k in ("s", "upvar", "place") and " as " in v:
                            for pat, n in pats:
                                v = pat.sub(n, v)
                            x[k] = v
                    elif isinstance(v, list) and k == "p":
                        nv = []
                        for e in v:
                            if isinstance(e, str):
                                for pat, n in pats:
                                    e = pat.sub(n, e)
                            else:
                                rec(e)
                            nv.append(e)
                        x[k] = nv
                    else:
                        rec(v)
            elif isinstance(x, list):
                for y in x:
                    rec(y)
        for b in self.hir + self.mir:
            rec(b)
        for it in self.items:
            if it.get("kind") == "enum" and it["path"] == enum_path:
                for v in it["variants"]:
                    v["name"] = mapping.get(v["name"], v["name"])

    def struct_fields(self, path_suffix, crate=VISITOR_CRATE):
        for it in self.items:
            if it["crate"] == crate and it.get("kind") == "struct" and it["path"].split("::")[-1].split("<")[0] == path_suffix:
                return it["variants"][0]["fields"]
        return None


def rename_locals(facts, hir_body, idmap, namemap):
    """present renamed local bindings of one function under their reference names (HIR: by binding id; MIR family, captures: by name)"""
    for root in list(hir_body.get("params", [])) + [hir_body["body"]]:
        for n in walk(root):
            k = n.get("k")
            if k == "PBind" and n.get("id") in idmap:
                n["name"] = idmap[n["id"]]
            elif k == "Path" and n["res"].get("r") == "local" and n["res"].get("id") in idmap:
                n["res"]["name"] = idmap[n["res"]["id"]]
            elif k == "Closure":
                for c in n.get("captures", []):
                    c["place"] = _sub_names(c["place"], namemap)
    m = facts.mir_by_path.get((hir_body["crate"], hir_body["path"]))
    if m is None:
        return

    def rec(x):
        if isinstance(x, dict):
            for k, v in x.items():
                if isinstance(v, str):
                    if k in ("s", "name", "upvar", "place"):
                        x[k] = _sub_names(v, namemap)
                elif isinstance(v, list) and k == "p":
                    x[k] = [_sub_names(y, namemap) if isinstance(y, str) else y for y in v]
                else:
                    rec(v)
        elif isinstance(x, list):
            for y in x:
                rec(y)
    for b in facts.mir_family(m):
        for key in ("locals", "debug", "upvars", "blocks"):
            rec(b.get(key))


def _sub_names(s, namemap):
    for old, new in namemap.items():
        if old in s:
            s = re.sub(r"(?<![\w.])" + re.escape(old) + r"\b", new, s)
    return s


# ---- HIR walking ---------------------------------------------------------------
CHILD_KEYS = ("items", "args", "stmts", "arms", "fields", "pats", "before", "after", "params")
SINGLE_KEYS = ("f", "recv", "e", "l", "r", "init", "else", "cond", "then", "scrut", "body", "expr",
               "guard", "base", "pat", "p", "sub", "mid", "i", "lo", "hi")


def children(node):
    """direct child nodes (dicts having 'k') of a HIR node, in source order-ish"""
    out = []
    if not isinstance(node, dict):
        return out
    for key, v in node.items():
        if key in ("res", "sp", "mac", "captures"):
            continue
        if isinstance(v, dict):
            if "k" in v:
                out.append(v)
            elif "e" in v or "p" in v:      # field wrappers {name, e} / {name, p}
                for kk in ("e", "p"):
                    if isinstance(v.get(kk), dict):
                        out.append(v[kk])
        elif isinstance(v, list):
            for x in v:
                if isinstance(x, dict):
                    if "k" in x:
                        out.append(x)
                    else:
                        for kk in ("e", "p"):
                            if isinstance(x.get(kk), dict):
                                out.append(x[kk])
    return out


def walk(node, enter_closures=True):
    """pre-order generator over HIR nodes"""
    stack = [node]
    while stack:
        n = stack.pop()
        if not isinstance(n, dict):
            continue
        yield n
        if n.get("k") == "Closure" and not enter_closures:
            continue
        ch = children(n)
        stack.extend(reversed(ch))


def walk_with_parents(node):
    """yields (node, parents tuple)"""
    stack = [(node, ())]
    while stack:
        n, ps = stack.pop()
        yield n, ps
        ch = children(n)
        for c in reversed(ch):
            stack.append((c, ps + (n,)))


def loc(body, node):
    sp = node.get("sp") or body.get("sp") or [0, 0, 0, 0]
    return "%s:%d" % (body.get("file", "?"), sp[0])


def is_ast_ty(ty):
    return AST in ty


def short(ty):
    """strip crate paths from a rendered type"""
    return re.sub(r"(?:[A-Za-z_][A-Za-z0-9_]*::)+", "", ty)


def macro_of(node):
    m = node.get("mac")
    return m[0] if m else None


def in_macro(node, name):
    return name in (node.get("mac") or [])


def strip_transparent(node):
    """peel reference / deref / clone / into / Box::new / to_string wrappers"""
    TRANSPARENT_METHODS = {"clone", "into", "to_owned", "to_string", "as_ref", "as_str", "as_deref",
                           "borrow", "deref", "as_mut", "as_deref_mut", "to_vec", "cloned"}
    while True:
        k = node.get("k")
        if k == "Ref":
            node = node["e"]
        elif k == "Unary" and node.get("op") == "*":
            node = node["e"]
        elif k == "MethodCall" and node["method"] in TRANSPARENT_METHODS and not node["args"]:
            node = node["recv"]
        elif k == "Call" and node.get("callee", "").endswith("Box::<T>::new") and len(node["args"]) == 1:
            node = node["args"][0]
        elif k == "Call" and node.get("callee") in ("std::convert::From::from", "std::convert::Into::into") and len(node["args"]) == 1:
            node = node["args"][0]
        elif k == "Block" and not node.get("stmts") and node.get("expr") is not None:
            node = node["expr"]
        elif k == "Cast":
            node = node["e"]
        else:
            return node


def local_of(node):
    """if node (after peeling) is a path to a local, return (name, id)"""
    n = strip_transparent(node)
    if n.get("k") == "Path" and n["res"].get("r") == "local":
        return (n["res"]["name"], n["res"]["id"])
    return None


def field_path(node):
    """render `self.options.optimize`-like field chains rooted at a local; None otherwise"""
    parts = []
    n = node
    while True:
        n = strip_transparent(n) if n.get("k") in ("Ref", "Unary") else n
        if n.get("k") == "Field":
            parts.append(n["name"])
            n = n["e"]
        elif n.get("k") == "Path" and n["res"].get("r") == "local":
            parts.append(n["res"]["name"])
            return ".".join(reversed(parts))
        elif n.get("k") in ("Ref",) or (n.get("k") == "Unary" and n.get("op") == "*"):
            n = n["e"]
        else:
            return None


def macro_arg(node, macro):
    """For quote_ident!/quote_str!/private_ident! expansions return the argument expression
    (the first sub-expression that does not itself come from that macro's expansion)."""
    for n in walk(node):
        if n is node:
            continue
        m = n.get("mac") or []
        if macro not in m:
            return n
    return None


def const_str(node):
    """string constant denoted by node: literal, const item path, &*CONST, "x".into() ..."""
    n = strip_transparent(node)
    if n.get("k") == "Lit" and n.get("lit") == "str":
        return n["v"]
    if n.get("k") == "Path" and n["res"].get("r") == "def" and isinstance(n["res"].get("value"), str):
        return n["res"]["value"]
    return None
