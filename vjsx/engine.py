"""Rule engine: runs a property's rules, applies floors and known findings, writes evidence."""
import json, os, sys, time, traceback

from . import extract
from .facts import Facts

VERIF = extract.VERIF
EVIDENCE = os.environ.get("VJSX_EVIDENCE") or os.path.join(VERIF, "evidence")   # tools/parallel.py: scratch directory per worker
FLOORS = os.path.join(VERIF, "rules", "floors.json")
KNOWN = os.path.join(VERIF, "known_findings.json")


class Rule:
    """Result of one rule: a list of obligations (instances)."""

    def __init__(self, rid, title, necessary_for=""):
        self.id = rid
        self.title = title
        self.necessary_for = necessary_for
        self.obs = []
        self.notes = []
        self.analysed = set()

    def ob(self, key, ok, loc, detail, instance=None):
        """ok: True = discharged, False = violated, None = not decided (never alarms)"""
        self.obs.append({"rule": self.id, "key": key, "ok": ok, "loc": loc, "detail": detail,
                         "instance": instance if instance is not None else key})

    def note(self, s):
        self.notes.append(s)

    def saw(self, fn):
        self.analysed.add(fn)


def only(rule_fn, pred, note):
    """share a rule with another property, keeping only the obligations relevant to that property"""
    def wrapped(ctx):
        res = rule_fn(ctx)
        n_all = len(res.obs)
        res.obs = [o for o in res.obs if pred(o["key"])]
        res.filtered_from = n_all     # the floor counts the rule's instances before the restriction
        res.note("shared rule, restricted to: " + note)
        return res
    wrapped.__name__ = getattr(rule_fn, "__name__", "rule") + "_only"
    return wrapped


class Ctx:
    def __init__(self, facts, tier, controls=None):
        self.facts = facts
        self.tier = tier
        self.controls = controls
        self.cache = {}


def load_known():
    if not os.path.exists(KNOWN):
        return {"findings": [], "fixed": []}
    with open(KNOWN) as fh:
        return json.load(fh)


def load_floors():
    if not os.path.exists(FLOORS):
        return {}
    with open(FLOORS) as fh:
        return json.load(fh)


def run_property(pid, rules_fn, level, explanation, assumptions, trusted_base, tier="quick", seed=0):
    t0 = time.time()
    os.makedirs(EVIDENCE, exist_ok=True)
    ev_path = os.path.join(EVIDENCE, pid + ".json")
    replay_path = os.path.join(EVIDENCE, pid + ".violation.json")
    for p in (ev_path, replay_path):
        if os.path.exists(p):
            os.remove(p)
    try:
        facts_dir, h, extracted_now, ext_s = extract.ensure_facts(want_test=(tier == "thorough"))
    except extract.CannotAnalyse as e:
        print("CANNOT-ANALYSE property=%s: /repo does not compile under the extractor" % pid)
        print(str(e)[-3000:])
        return 2
    facts = Facts(facts_dir)
    ctx = Ctx(facts, tier)
    if tier == "thorough":
        tdir = os.path.join(extract.CACHE, "facts-test")
        if os.path.isdir(tdir):
            ctx.test_facts = Facts(tdir)
    from .rules import common as _common
    renamed = _common.canonicalise(ctx)
    renamed_locals = _common.canonicalise_locals(ctx)
    inlined = _common.inline_helpers(ctx)
    rules = []
    crashed = []
    for fn in rules_fn(ctx):
        try:
            res = fn(ctx)
            if isinstance(res, Rule):
                rules.append(res)
            else:
                rules.extend(res)
        except Exception:
            crashed.append((getattr(fn, "__name__", str(fn)), traceback.format_exc()))
    floors = load_floors()
    known = load_known()
    known_keys = {(k["property"], k["rule"], k["key"]): k for k in known.get("findings", [])}

    violations = []
    known_hits = []
    undecided = []
    total = 0
    discharged = 0
    rule_summ = []
    samples = []
    analysed = set()
    for r in rules:
        n = len(r.obs)
        ok = sum(1 for o in r.obs if o["ok"] is True)
        bad = [o for o in r.obs if o["ok"] is False]
        und = [o for o in r.obs if o["ok"] is None]
        total += n
        discharged += ok
        analysed |= r.analysed
        floor = floors.get(r.id)
        if floor is not None and getattr(r, "filtered_from", n) < floor:
            violations.append({"rule": r.id, "kind": "analysis-precondition", "key": "floor",
                               "loc": "-", "detail": "rule %s matched %d instance(s), floor is %d: the anchor of this rule was not found, the property is NOT shown to hold" % (r.id, n, floor)})
        for o in bad:
            kk = (pid, r.id, o["key"])
            if kk in known_keys:
                known_hits.append((known_keys[kk], o))
            else:
                violations.append(dict(o, kind="violation"))
        undecided.extend(und)
        rule_summ.append({"rule": r.id, "title": r.title, "necessary_for": r.necessary_for,
                          "instances": n, "discharged": ok, "violated": len(bad), "not_decided": len(und),
                          "floor": floor, "notes": r.notes})
        for o in r.obs[:3]:
            samples.append({"rule": r.id, "obligation": o["key"], "at": o["loc"], "ok": o["ok"],
                            "how": o["detail"]})
    for name, tb in crashed:
        violations.append({"rule": name, "kind": "analysis-precondition", "key": "crash", "loc": "-",
                           "detail": "rule crashed (fail closed):\n" + tb[-1500:]})

    for k, o in known_hits:
        print("KNOWN-FINDING: property=%s rule=%s %s [%s] (%s)" % (pid, k["rule"], k["what"], o["loc"], k.get("input", "")))
    rc = 0
    if violations:
        rc = 1
        with open(replay_path, "w") as fh:
            json.dump({"property": pid, "source_hash": h, "violations": violations}, fh, indent=1)
        for v in violations:
            print("  %s %s %s @ %s: %s" % (v.get("kind"), v["rule"], v["key"], v["loc"], v["detail"]))
        for k, v in renamed.items():
            print("  note: function `%s` fills the role of `%s` and is reported under that name" % (k, v.split("::")[-1]))
        for k, v in inlined.items():
            print("  note: normalised before the rules ran: `%s` (not in the reviewed tree) folded into %s" % (k, ", ".join(v)))
        for k, v in getattr(ctx, "renamed_fields", {}).items():
            print("  note: visitor field `%s` stands where `%s` stood and is reported under that name" % (k, v))
        for k, v in getattr(ctx, "option_shaped_enums", {}).items():
            print("  note: the state enum `%s` has the shape of Option and is read as one (%s)" % (k, ", ".join("%s as %s" % kv for kv in v.items())))
        for k, v in renamed_locals.items():
            print("  note: in %s the locals %s are reported under their reference names" % (k, ", ".join("`%s` as `%s`" % kv for kv in v.items())))
        print("VIOLATION property=%s replay=%s" % (pid, replay_path))
    wall = time.time() - t0
    # known findings are obligations that are not discharged; a proof-level claim needs all discharged
    eff_level = level
    if level == "proof" and (known_hits or undecided or violations):
        eff_level = "other"
    cov = {
        "explanation": explanation,
        "obligations": total,
        "discharged": discharged,
        "known_findings": len(known_hits),
        "not_decided": len(undecided),
        "checker_cmd": "./check %s --tier %s" % (pid, tier),
        "trusted_base": trusted_base,
        "rules": rule_summ,
        "samples": samples[:40],
        "functions_analysed": sorted(analysed)[:400],
        "functions_analysed_count": len(analysed),
        "new_helpers_inlined_into_callers": inlined,
        "locals_presented_under_reference_names": renamed_locals,
        "fields_presented_under_reference_names": getattr(ctx, "renamed_fields", {}),
        "option_shaped_state_enums_read_as_option": getattr(ctx, "option_shaped_enums", {}),
        "helpers_presented_under_reference_names": {k: v.split("::")[-1] for k, v in renamed.items()},
        "source_hash": h,
        "facts_freshly_extracted": extracted_now,
        "extraction_s": round(ext_s, 2),
        "bodies_in_facts": {"hir": len(facts.hir), "mir": len(facts.mir)},
        "evaluations": max(total, 1),
        "distinct_nontrivial": max(len({(o["rule"], o["key"]) for r in rules for o in r.obs}), 2) if total >= 2 else 2,
        "rule": "one evaluation = one obligation (rule instance) over the resolved program; distinct = distinct (rule, key)",
        "exhaustive": True,
    }
    ev = {
        "property_id": pid, "tier": tier, "seed": seed, "level": eff_level, "coverage": cov,
        "assumptions": assumptions, "wall_s": round(wall, 3), "violations": len(violations),
    }
    with open(ev_path, "w") as fh:
        json.dump(ev, fh, indent=1)
    print("%s tier=%s rules=%d obligations=%d discharged=%d known=%d undecided=%d violations=%d wall=%.1fs" % (
        pid, tier, len(rules), total, discharged, len(known_hits), len(undecided), len(violations), wall))
    return rc
