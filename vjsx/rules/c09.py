"""C09 — code that is not JSX is left as written; nothing is added to a JSX-free module."""
import re
from ..facts import AST, VISITOR_CRATE, walk, strip_transparent, local_of, field_path
from ..engine import Rule
from ..cfg import calls, callee_name, place_of
from . import common as C
from .hirtext import expr_str
from .mirflow import Flow, mut_events, self_field_of, TRANSPARENT
from .influence import flow_of, controlling_fields, controlling_deps
from . import c07

REGISTRIES = ("vue_imports", "slot_helper_ident", "transform_on_helper", "injecting_vars", "injecting_consts")
PURE_INSERT = re.compile(r"alloc::vec::Vec::<T, A>::(insert|push|extend|append|extend_from_slice)$|Extend<T>>::extend$")
DESTRUCTIVE = re.compile(r"alloc::vec::Vec::<T, A>::(remove|clear|truncate|pop|retain|retain_mut|drain|swap_remove|dedup|dedup_by|dedup_by_key|split_off|splice|resize|set_len)$"
                         r"|slice::<impl \[T\]>::(swap|reverse|sort|sort_by|sort_by_key|sort_unstable|sort_unstable_by|rotate_left|rotate_right|fill)$|core::mem::(take|replace|swap)$")


def _pointee(ty):
    return ty[5:] if ty.startswith("&mut ") else ty


def _is_ast_pointee(ty):
    t = _pointee(ty)
    return (t.startswith(AST) or t.startswith("alloc::vec::Vec<" + AST) or t.startswith("alloc::boxed::Box<" + AST)
            or t.startswith("core::option::Option<") and AST in t or t.startswith("core::slice::iter::IterMut<") or t.startswith("[" + AST)
            or t.startswith("alloc::vec::Vec<core::option::Option<" + AST))


def _empty_head_splice(mb, e):
    """`v.splice(0..0, items)`: replaces the empty range at the head, i.e. a pure insertion"""
    from ..cfg import const_range_of
    if not e["callee"].endswith("Vec::<T, A>::splice"):
        return False
    args = e["node"].get("args", [])
    return len(args) >= 2 and const_range_of(mb, args[1]) == (0, 0)


def node_events(ctx, mb, node_params):
    """mutation events on memory reachable from the node parameter(s)"""
    fl = flow_of(ctx, mb)
    out = []
    for e in mut_events(mb, fl):
        roots = {s for s in e["sources"] if s[0] == "param" and s[1] in node_params}
        if not roots:
            continue
        if e["kind"] == "call":
            if not _is_ast_pointee(e["arg_ty"]):
                continue
            if TRANSPARENT.search(e["callee"]) and not e["callee"].endswith("::take"):
                continue   # derives a reference, mutates nothing
        else:
            # stores into visitor state that merely *copy from* the node are not node writes
            lhs = e["node"]["lhs"]
            lroots = flow_of(ctx, mb).place_sources({"l": lhs["l"], "p": [], "s": ""})
            if lhs["l"] not in node_params and not any(s[0] == "param" and s[1] in node_params for s in lroots):
                continue
        e = dict(e)
        e["paths"] = sorted({_norm_path(s[2]) for s in roots})
        out.append(e)
    return out


def _norm_path(p):
    p = p.replace("*", "")
    return p or "<node>"


def _method_node_ty(hb):
    return hb["inputs"][1] if len(hb["inputs"]) > 1 else ""


def r09_1(ctx):
    r = Rule("R09.1", "write inventory: every write through a visited node is one of the allowed, guarded kinds",
             "any other write changes code that is not JSX")
    builders = {}
    for role in ("element_builder", "fragment_builder"):
        b = C.role_or_fail(ctx, r, role)
        if b:
            builders[b["path"]] = role
    inj = C.role_or_fail(ctx, r, "injector")
    inj_path = inj["path"] if inj else None
    seen_keys = {}

    def ob(key, ok, loc, detail):
        c = seen_keys.get(key, 0)
        seen_keys[key] = c + 1
        r.ob(key if c == 0 else "%s #%d" % (key, c + 1), ok, loc, detail)

    for hb in C.visitor_methods(ctx):
        name = hb["name"]
        node_ty = _method_node_ty(hb)
        in_jsx = _pointee(node_ty).startswith(AST + "JSX")
        for mb in C.family(ctx, hb):
            r.saw(mb["path"])
            is_closure = mb["dk"] == "Closure"
            if is_closure:
                # closures get the node only through upvars
                evs = [e for e in mut_events(mb, flow_of(ctx, mb)) if any(s[0] == "upvar" and not s[1].lstrip("*").startswith("self") for s in e["sources"])
                       and (e["kind"] == "store" or _is_ast_pointee(e.get("arg_ty", "")))]
                for e in evs:
                    if e["kind"] == "call" and TRANSPARENT.search(e["callee"]):
                        continue
                    ob("%s closure writes captured node state" % name, in_jsx, C.mloc(mb, e["node"]), "write through a captured node reference in a closure")
                continue
            g = C.cfg_of(ctx, mb)
            for e in node_events(ctx, mb, {2}):
                loc = C.mloc(mb, e["node"])
                paths = ",".join(e["paths"])
                if e["kind"] == "call":
                    cal = e["callee"]
                    short = cal.split("::")[-1]
                    key = "%s: %s on %s" % (name, short, paths)
                    if cal.endswith("visit_mut_children_with") or cal.endswith("::visit_mut_with"):
                        ob(key, True, loc, "the traversal itself")
                    elif in_jsx:
                        ob(key, True, loc, "write inside a JSX node (%s), which is replaced as a whole" % _pointee(node_ty).split("::")[-1])
                    elif cal == inj_path:
                        ob(key, True, loc, "delegated to the defineComponent injector (gates: R20.1)")
                    elif (PURE_INSERT.search(cal) or _empty_head_splice(mb, e)) and re.match(r"&mut alloc::vec::Vec<swc_ecma_ast::(Stmt|ModuleItem)>", e["arg_ty"]):
                        # pure insertion into a statement list: needs a registry-non-empty guard
                        cf = controlling_fields(ctx, mb, e["bb"])
                        regs = sorted(f.strip(".").split(".")[0] for f in cf if f.strip(".").split(".")[0] in REGISTRIES)
                        if regs:
                            ob(key, True, loc, "pure insertion, control-dependent on a test of %s" % "/".join(sorted(set(regs))))
                        else:
                            ob(key, False, loc, "insertion into a statement list that is not guarded by a non-empty test of a registry (%s): something is added to modules without JSX" % ", ".join(REGISTRIES))
                    elif DESTRUCTIVE.search(cal):
                        ob(key, False, loc, "%s on %s removes / reorders / replaces user code" % (short, paths))
                    elif (mb["crate"], cal) in ctx.facts.mir_by_path or (VISITOR_CRATE, cal) in ctx.facts.mir_by_path:
                        ob(key, False, loc, "the node is handed as &mut to local function %s which is not the traversal or the gated injector" % short)
                    else:
                        ob(key, False, loc, "unclassified mutating call %s on %s" % (cal, paths))
                else:
                    key = "%s: store to %s" % (name, e["place"])
                    if in_jsx:
                        ob(key, True, loc, "write inside a JSX node")
                    elif name == "visit_mut_expr" and e["node"]["lhs"].get("p") == ["*"]:
                        src = place_of(e["node"]["rv"].get("op", {})) if e["node"]["rv"].get("rk") == "use" else None
                        if src and c07._call_dest_of(mb, src["l"], builders):
                            ob(key, True, loc, "whole-node replacement by a builder result (the JSX arms: R07.4)")
                        else:
                            ob(key, False, loc, "the visited expression is overwritten with something that is not a JSX builder's result")
                    elif re.search(r"BlockStmtOrExpr>?$", e["node"]["lhs"].get("ty", "")):
                        cf = controlling_fields(ctx, mb, e["bb"])
                        regs = {f.strip(".").split(".")[0] for f in cf}
                        dd = controlling_deps(ctx, mb, e["bb"])
                        on_body = any(s[0] == "param" and s[1] == 2 for s in dd)
                        if regs & {"injecting_vars", "injecting_consts"} and on_body:
                            ob(key, True, loc, "arrow-body wrap, control-dependent on pending declarations and on the body being an expression (content: R09.3)")
                        else:
                            ob(key, False, loc, "arrow body replaced without the pending-declarations / expression-body guard")
                    else:
                        ob(key, False, loc, "store through the visited node at %s" % e["place"])
    # the injector: writes only under call.args
    if inj:
        mb = C.mir_of(ctx, inj)
        for fam in C.family(ctx, inj):
            r.saw(fam["path"])
        for e in node_events(ctx, mb, {1}):
            loc = C.mloc(mb, e["node"])
            paths = ",".join(e["paths"])
            if e["kind"] == "call":
                short = e["callee"].split("::")[-1]
                okp = all(p.startswith(".args") for p in e["paths"])
                allowed = re.search(r"Vec::<T, A>::(push|insert|remove)$", e["callee"])
                ob("injector: %s on %s" % (short, paths), bool(okp and allowed), loc,
                   "options-object augmentation" if (okp and allowed) else "the injector writes outside `call.args` or with a destructive method")
            else:
                ob("injector: store to %s" % e["place"], all(p.startswith(".args") for p in e["paths"]), loc, "store below call.args")
    return r


def r09_2(ctx):
    r = Rule("R09.2", "registries grow only under the JSX builders, the gated props extractor, or a registry-non-empty guard",
             "a registry entry created for a JSX-free module makes the module gain imports/helpers")
    F = ctx.facts
    nodes, edges = C.call_graph(ctx)
    gate_roles = ["element_builder", "fragment_builder", "props_extractor"]
    gates = set()
    for role in gate_roles:
        b = C.role_or_fail(ctx, r, role)
        if b:
            gates.add((b["crate"], b["path"]))
    # adding writers
    adders = {}
    ADD = re.compile(r"(Vec::<T, A>::(push|insert|extend|append)|BTreeMap::<K, V, A>::(entry|insert)|Option::<T>::(get_or_insert_with|get_or_insert|insert|replace)|HashMap::<K, V, S, A>::(insert|entry))$")
    for k, b in nodes.items():
        if k[0] != VISITOR_CRATE:
            continue
        fl = flow_of(ctx, b)
        for e in mut_events(b, fl):
            fields = {f.strip(".").split(".")[0] for f in self_field_of(e["sources"])}
            regs = fields & set(REGISTRIES)
            if not regs:
                continue
            if e["kind"] == "call":
                if ADD.search(e["callee"]):
                    adders.setdefault(k, []).append((e, regs))
            else:
                # assignment: neutral if the value is the result of mem::take of the same field (restore)
                rv = e["node"]["rv"]
                src = place_of(rv.get("op", {})) if rv.get("rk") == "use" else None
                restored = False
                if src is not None:
                    for s in fl.sources(src["l"]):
                        if s[0] == "call" and s[1].endswith("core::mem::take"):
                            restored = True
                lhs_field = e["node"]["lhs"]["s"]
                if not restored and not (rv.get("rk") == "agg" and rv.get("variant") == "None"):
                    adders.setdefault(k, []).append((e, regs))
    # which adders are in `new`? skip the constructor
    adders = {k: v for k, v in adders.items() if not k[1].endswith("::new")}
    # remove guarded edges: call sites control-dependent on a registry test
    guarded_edges = set()
    for k, b in nodes.items():
        if k[0] != VISITOR_CRATE:
            continue
        for i, t in calls(b):
            name = callee_name(t)
            tgt = (b["crate"], name)
            if tgt in nodes:
                cf = controlling_fields(ctx, b, i)
                if any(f.strip(".").split(".")[0] in REGISTRIES for f in cf):
                    guarded_edges.add((k, tgt, i))
    entry = [(b["crate"], b["path"]) for b in C.visitor_methods(ctx)]

    def reach(avoid_nodes):
        seen = set()
        st = list(entry)
        while st:
            x = st.pop()
            if x in seen or x in avoid_nodes:
                continue
            seen.add(x)
            b = nodes.get(x)
            if b is None:
                continue
            for y in edges.get(x, ()):
                # is every call site of y in x guarded?
                sites = [i for i, t in calls(b) if (b["crate"], callee_name(t)) == y]
                if sites and all((x, y, i) in guarded_edges for i in sites):
                    continue
                st.append(y)
        return seen
    free = reach(gates)
    for k, evs in sorted(adders.items()):
        root = nodes[k]
        r.saw(k[1])
        regs = sorted({x for e, rs in evs for x in rs})
        key = "%s adds to %s" % (k[1], "/".join(regs))
        loc = C.mloc(root, evs[0][0]["node"])
        if k in free:
            r.ob(key, False, loc, "reachable from a VisitMut method without passing a JSX builder, the gated props extractor or a registry-non-empty guard: a module without JSX can gain this entry")
        else:
            r.ob(key, True, loc, "every call path from the VisitMut methods passes a JSX builder / the gated props extractor / a registry-non-empty guard")
    # the gates themselves are only entered for JSX (builders) — builders called from visit_mut_expr JSX arms or each other
    for gk in sorted(gates):
        callers = sorted({k[1] for k, es in edges.items() if gk in es and k[0] == VISITOR_CRATE})
        r.ob("callers of %s" % gk[1].split("::")[-1], True, "-", "called from: " + ", ".join(c.split("::")[-1] for c in callers))
    return r


def r09_3(ctx):
    """content of the arrow-body wrap (HIR template): old body is kept as `return <old>` and is last"""
    r = Rule("R09.3", "the arrow-body wrap keeps the original body expression as the returned value, once, as the last statement",
             "a wrap that drops or duplicates the body changes what the arrow returns")
    hbs = [b for b in C.visitor_methods(ctx) if b["name"] in ("visit_mut_block_stmt_or_expr", "visit_mut_arrow_expr")]
    if not hbs:
        r.ob("arrow-body hook exists", None, "-", "no arrow-body hook: pending declarations of expression-bodied arrows are handled elsewhere (not decided)")
        return r
    for hb in hbs:
        r.saw(hb["path"])
        rets = [n for n in walk(hb["body"]) if n.get("k") == "Struct" and n.get("adt") == AST + "ReturnStmt"]
        for n in rets:
            arg = {f["name"]: f["e"] for f in n["fields"]}.get("arg")
            a = strip_transparent(arg) if arg else None
            ok = False
            detail = "ReturnStmt.arg is not Some(<old body>)"
            if a is not None and a.get("k") == "Ctor" and a.get("variant") == "Some" and a["args"]:
                lo = local_of(a["args"][0])
                if lo:
                    from .hirflow import HirIndex
                    idx = HirIndex(hb)
                    b = idx.binding.get(lo[1])
                    path = (b or {}).get("path") or ()
                    if b and path and path[-1][0] == "tfield" and path[-1][1] == AST + "BlockStmtOrExpr" and path[-1][2] == "Expr":
                        ok = True
                        detail = "returns the expression bound from BlockStmtOrExpr::Expr(%s) of the old body" % lo[0]
            r.ob("%s: wrap returns the old body" % hb["name"], ok, C.mloc(hb, n), detail)
        # the Return push is the last push into the statement vector before the body assignment
        pushes = [n for n in walk(hb["body"]) if n.get("k") == "MethodCall" and n["method"] == "push" and (n["recv"].get("ty") or "").startswith("alloc::vec::Vec<" + AST + "Stmt>")]
        if pushes:
            last = pushes[-1]
            is_ret = any(x.get("k") == "Struct" and x.get("adt") == AST + "ReturnStmt" for x in walk(last))
            r.ob("%s: return is pushed last" % hb["name"], is_ret, C.mloc(hb, last), "last push into the new block is the Return" if is_ret else "a statement is pushed after the Return (dead) or the Return is not last")
    return r


def hir_mir_registry_writers(ctx):
    """thorough: functions that add to a registry, derived from MIR effects and again from the typed HIR"""
    r = Rule("R09.X", "cross-check: registry-growing functions derived from MIR equal those derived from the typed HIR", "a writer one view misses would escape R09.2")
    from .c06 import _adders
    nodes, edges = C.call_graph(ctx)
    mir = set()
    ADD = re.compile(r"(Vec::<T, A>::(push|insert|extend|append)|BTreeMap::<K, V, A>::(entry|insert)|Option::<T>::(get_or_insert_with|get_or_insert|insert|replace))$")
    from .state import first_field, root_path
    for k, b in nodes.items():
        if k[0] != VISITOR_CRATE or k[1].endswith("::new"):
            continue
        for e in mut_events(b, flow_of(ctx, b)):
            if e["kind"] == "call" and ADD.search(e["callee"]):
                for f in self_field_of(e["sources"]):
                    if first_field(f) in REGISTRIES:
                        mir.add((root_path(b), first_field(f)))
    hir = set()
    for b in ctx.facts.hir:
        if b["crate"] != VISITOR_CRATE or b.get("mac") or b["name"] == "new":
            continue
        for n in walk(b["body"]):
            if n.get("k") == "MethodCall" and n["method"] in ("push", "insert", "extend", "append", "entry", "get_or_insert_with", "get_or_insert", "replace"):
                fp = field_path(strip_transparent(n["recv"])) or ""
                m = re.match(r"self\.(\w+)$", fp)
                if m and m.group(1) in REGISTRIES:
                    hir.add((b["path"], m.group(1)))
    for x in sorted(hir | mir):
        r.ob("%s adds to %s" % x, x in hir and x in mir, "-", "seen in both views" if (x in hir and x in mir) else ("only in the %s view" % ("HIR" if x in hir else "MIR")))
    return r


def r09_5(ctx):
    r = Rule("R09.5", "the registries of things to emit (imports, helpers, pending declarations) start empty and are filled only by the JSX builders and what they call",
             "a registry that is non-empty without JSX makes the module hook add imports / helpers to code that has no JSX")
    from . import c10
    from .state import access_index, root_path
    # (a) the constructor gives each registry its empty value
    news = [b for b in ctx.facts.hir if b["crate"] == VISITOR_CRATE and not b.get("mac") and b.get("impl_self", "").startswith("VueJsxTransformVisitor")
            and not b.get("impl_trait") and b["output"].startswith("VueJsxTransformVisitor") ]
    for nb in news:
        r.saw(nb["path"])
        for n in walk(nb["body"]):
            if n.get("k") == "Struct" and (n.get("adt") or "").startswith("VueJsxTransformVisitor"):
                fs = {f["name"]: f["e"] for f in n["fields"]}
                for reg in REGISTRIES:
                    if reg not in fs:
                        r.ob("%s: %s starts empty" % (nb["name"], reg), None, C.mloc(nb, n), "field not initialised in this literal")
                        continue
                    e = strip_transparent(fs[reg])
                    lo = local_of(e)
                    if lo is not None:      # `let x = None; .. field: x`
                        from .hirflow import HirIndex
                        bnd = HirIndex(nb).binding.get(lo[1])
                        if bnd and bnd.get("kind") == "let" and bnd.get("init") is not None and not bnd.get("path"):
                            e = strip_transparent(bnd["init"])
                    t = expr_str(e)
                    empty = t in ("None", "default()", "new()", "Default::default()") or (e.get("k") == "Call" and (e.get("callee") or "").endswith(("::default", "::new")) and not e["args"]) \
                        or (e.get("k") == "Path" and e["res"].get("variant") == "None")
                    r.ob("%s: %s starts empty" % (nb["name"], reg), empty, C.mloc(nb, fs[reg]),
                         t[:60] if empty else "`%s` is initialised with `%s`: it is emitted by the module hook for every module, JSX or not" % (reg, t[:60]))
    # (b) every later writer is a JSX builder or reached only from one; the hooks that drain / restore pending declarations are R06.1's business
    idx = access_index(ctx)
    lowering = c10._lowering_bodies(ctx)
    for reg in REGISTRIES:
        for a in idx.get(reg, []):
            rp = root_path(a["body"])
            if rp.endswith("::new") or not (a["kind"] == "store" or (a["kind"] == "call" and a["mut"])):
                continue
            in_low = (a["body"]["crate"], rp) in lowering
            in_hook = "VisitMut>::visit_mut_" in rp
            if in_low or in_hook:
                continue
            r.ob("%s is written only by JSX lowering code" % reg, False, C.mloc(a["body"], a["node"]),
                 "written in %s, which is not reached from the JSX builders" % rp)
        r.ob("%s: writers outside the constructor are JSX builders (or the draining hooks)" % reg, True, "-", "%d access(es) examined" % len(idx.get(reg, [])))
    return r


def rules(ctx):
    from . import c06
    out = [r09_1, r09_2, r09_3, r09_5, c07.r07_3, c06.r06_1,
           __import__('vjsx.rules.c10', fromlist=['x']).field_ratchet('what happens to non-JSX code (resolveType injection, idempotence) must not depend on state carried over from earlier code')]
    if ctx.tier == "thorough":
        out.append(hir_mir_registry_writers)
    try:
        from . import c20
        out += [c20.r20_1, c20.r20_2, c20.r20_5, c20.r20_3]
    except ImportError:
        pass
    return out


EXPLANATION = (
    "R09.1 enumerates, from MIR, every event that can write through a visited node in every VisitMut method (stores through the node "
    "parameter and calls receiving a &mut derived from it, closed over the local injector) and requires each to be one of: the traversal, "
    "whole-expression replacement by a JSX builder result, a pure insertion into a statement list that is control-dependent on a "
    "registry-non-empty test, the guarded arrow-body wrap, a write inside a JSX-typed node, or the gated defineComponent injector; "
    "destructive list operations on statement lists are rejected outright. R09.2 shows on the call graph that registries only grow "
    "under the JSX builders / the gated props extractor / a registry guard, so a module without JSX (and without gated calls) reaches no "
    "insertion. R09.3 checks the wrap's template keeps the old body. R07.3 (shared) gives traversal completeness. Idempotence is an "
    "argument on top (C07: output has no JSX; C20 R20.3: injection skips existing keys), not a separate rule."
)
ASSUMPTIONS = [
    "swc_ecma_visit's generated visit_mut_children_with only calls back into the visitor's own visit_mut_* methods",
    "std Vec::insert/push/extend do not alter existing elements (pure insertion)",
    "idempotence is argued from C07 + R20.3, not checked by execution",
]
TRUSTED = ["rustc nightly MIR", "swc_ecma_visit", "std collection semantics"]
LEVEL = "other"
LEVEL_TEXT = ("Complete inventory of writes through visited nodes in the resolved program, each matched against the allowed kinds and their "
              "guards (control dependence on MIR), plus call-graph reachability of registry growth. A sufficient structural condition for "
              "'non-JSX code untouched, nothing added to JSX-free modules'; evaluation of outputs is not involved.")
LEVEL_NOTE = "Trusted: rustc MIR, swc_ecma_visit, std collections. Idempotence follows by argument from C07 and C20 rules; it is not separately decided."
TECHNIQUE = "MIR effect inventory (mutable-reference provenance) + control dependence on registry tests + call-graph reachability"
