"""C03 — component children become the slots the source denotes (dispatch shape)."""
import re
from ..facts import AST, VISITOR_CRATE, walk, walk_with_parents, strip_transparent, field_path, const_str, local_of
from ..engine import Rule
from . import common as C
from .hirflow import HirIndex, conjuncts
from .hirtext import expr_str, pat_str
from . import c01, c02, c11, c14


# `if is_component { self.wrap_children(<the three carriers, in the wrapper's parameter order>) } else { [..] }`
# (the wrapper may be a method or a free function; a free function is handed `self.options.optimize` as a fourth argument)
WRAP_CALL = r"(?:self\.)?wrap_children\((?:elems|slot_flag|slots), (?:elems|slot_flag|slots), (?:elems|slot_flag|slots)(?:, self\.options\.optimize)?\)"
WRAP_OR_LIST = re.compile(r"if is_component " + WRAP_CALL + r" else Array\(ArrayLit\{")


def r03_1(ctx):
    r = Rule("R03.1", "child-shape dispatch table of the children builder (slice pattern x child variant x guard) equals the documented one",
             "a child routed to the wrong arm becomes the wrong kind of slot")
    ch = C.role_or_fail(ctx, r, "children_builder")
    if not ch:
        return r
    r.saw(ch["path"])
    d = c02._dispatch(ch)
    if d is None:
        r.ob("dispatch found", None, C.mloc(ch, ch), "not found")
        return r
    arms = {pat_str(a["pat"]): a for a in d["arms"]}
    r.ob("no children -> v-slots object (components) or null", "[]" in arms, C.mloc(ch, d), "arms: %s" % sorted(arms))
    single = [k for k in arms if k.startswith("[Some(ExprOrSpread(")]
    ok_single = len(single) == 1 and "spread: None" in single[0]
    r.ob("the single-child arm only matches a non-spread child", ok_single, C.mloc(ch, arms[single[0]]) if single else C.mloc(ch, d),
         single[0] if single else "no single-child arm")
    if not single:
        return r
    inner = None
    for n in walk(arms[single[0]]["body"]):
        if n.get("k") == "Match":
            inner = n
            break
    if inner is None:
        r.ob("single-child variant table found", None, C.mloc(ch, d), "not found")
        return r
    want = {
        "Ident": ("is_component", None),
        "Call": ("((expr.span() != DUMMY_SP) && is_component)", None),
        "Arrow|Fn": ("is_component", "Object(ObjectLit{span: DUMMY_SP, props: "),
        "Object": ("is_component", None),
        "_": (None, None),
    }
    seen = set()
    for a in inner["arms"]:
        variants = sorted({x.get("variant") for x in walk(a["pat"]) if x.get("k") in ("PTupleStruct", "PStruct") and x.get("adt") == AST + "Expr"})
        key = "|".join(variants) if variants else "_"
        seen.add(key)
        g = expr_str(a["guard"]) if a.get("guard") is not None else None
        body = expr_str(a["body"])
        if key in want:
            wg, wb = want[key]
            r.ob("single child %s: guard %s" % (key, wg or "none"), g == wg, C.mloc(ch, a), "guard `%s`" % g)
        else:
            # an arm for a further expression kind is fine when it does what the catch-all arm does; anything else is a new case of the table
            dflt = next((x for x in inner["arms"] if pat_str(x["pat"]) == "_"), None)
            same = dflt is not None and expr_str(a["body"], names={}) == expr_str(dflt["body"], names={})
            r.ob("single child %s" % key, True if same else False, C.mloc(ch, a),
                 "same as the catch-all arm" if same else "an arm outside the documented table (guard `%s`) that does something else than the catch-all arm: `%s`" % (g, body[:80]))
        if key == "Arrow|Fn":
            ok = "key: Ident(" in body and "'default'" in body and "value: expr" in body
            r.ob("function child is the `default` slot itself", ok, C.mloc(ch, a), body[:140])
        if key == "_":
            ok = bool(WRAP_OR_LIST.match(body))
            r.ob("any other single child: wrapped default slot for components, list otherwise", ok, C.mloc(ch, a), body[:110])
        if key == "Object":
            ok = "let props = props" in body and "Object(ObjectLit{span: DUMMY_SP, props: props})" in body
            r.ob("object-literal child is the slots object", ok, C.mloc(ch, a), body[:120])
        if key in ("Ident", "Call"):
            # object-slot conditional: test = helper(child), cons = child (or temp), alt = wrapper
            conds = [x for x in walk(a["body"]) if x.get("k") == "Struct" and x.get("adt") == AST + "CondExpr"]
            for cnd in conds:
                fs = {f["name"]: expr_str(f["e"]) for f in cnd["fields"]}
                ok = "generate_slot_helper()" in fs.get("test", "") and "wrap_children(" in fs.get("alt", "") and "wrap_children(" not in fs.get("cons", "")
                r.ob("%s child: `isSlot(child) ? child : {default: () => [child]}`" % key, ok, C.mloc(ch, cnd), "test %s… cons %s… alt %s…" % (fs.get("test", "")[:40], fs.get("cons", "")[:30], fs.get("alt", "")[:40]))
            # enable_object_slots off -> always wrapped
            ifs = [x for x in walk(a["body"]) if x.get("k") == "If" and expr_str(x["cond"]) == "self.options.enable_object_slots"]
            for i_ in ifs:
                el = expr_str(i_["else"]) if i_.get("else") is not None else ""
                r.ob("%s child with enableObjectSlots off is always wrapped" % key, bool(re.match(WRAP_CALL, el)), C.mloc(ch, i_), "else: %s" % el[:60])
    r.ob("all documented single-child arms exist", {"Ident", "Call", "Arrow|Fn", "Object", "_"} <= seen, C.mloc(ch, inner), "arms: %s" % sorted(seen))
    multi = arms.get("_")
    if multi is not None:
        body = expr_str(multi["body"])
        r.ob("several children: wrapped default slot for components, list otherwise", bool(WRAP_OR_LIST.match(body)), C.mloc(ch, multi), body[:100])
    return r


def r03_3(ctx):
    r = Rule("R03.3", "v-slots entries reach the output on every component path that builds a slots object; in the wrapper they are merged beside `default`",
             "dropping the v-slots carrier loses named slots")
    ch = C.role_or_fail(ctx, r, "children_builder")
    wr = C.role_or_fail(ctx, r, "wrapper")
    if not ch or not wr:
        return r
    r.saw(ch["path"])
    r.saw(wr["path"])
    d = c02._dispatch(ch)
    if d is not None:
        seen = {}
        for a in d["arms"]:
            inner_arms = [a]
            for n in walk(a["body"]):
                if n.get("k") == "Match":
                    inner_arms = n["arms"]
                    break
            for ia in inner_arms:
                for leaf in c02._leaves(ia["body"]):
                    t = expr_str(leaf)
                    if t.startswith("Array(") or t.startswith("Lit(Null"):
                        continue
                    uses = any(x.get("k") == "Path" and x["res"].get("r") == "local" and x["res"]["name"] == "slots" for x in walk(leaf))
                    # a Cond whose alt uses slots counts
                    lab = pat_str(ia["pat"])[:40]
                    key = "slots object built for child %s carries v-slots" % lab
                    c = seen.get(key, 0)
                    seen[key] = c + 1
                    r.ob(key + ("" if not c else " #%d" % (c + 1)), uses, C.mloc(ch, leaf), "uses `slots`" if uses else "the slots object is built without the v-slots value: `<A v-slots={s}>{child}</A>` loses `s`")
    # wrapper: default first, then object props extended / spread pushed
    t = expr_str(wr["body"])
    ok = "if let Some(expr) = slots match expr {Object(ObjectLit(props: slot_props, ..))" in t.replace("$", "slot_props") or ("props.extend_from_slice(slot_props)" in t and "props.push(Spread(SpreadElement{" in t)
    r.ob("wrapper merges v-slots beside `default` (object literal: its properties; otherwise: spread)", bool(re.search(r"props\.(extend_from_slice|extend|append)\(slot_props\)", t)) and "props.push(Spread(SpreadElement{" in t, C.mloc(wr, wr), "extend(slot_props) / push(Spread)")
    first = t.find("'default'")
    r.ob("`default` is the first entry of the slots object", 0 <= first < t.find("slots") if "slots" in t else False, C.mloc(wr, wr), "default thunk is built before the v-slots merge")
    return r


def r03_4(ctx):
    r = Rule("R03.4", "generated calls carry DUMMY_SP: the call-child arm tells user calls from generated vnode calls by their span",
             "a generated call with a real span is evaluated eagerly into a slot temp")
    for role in ("element_builder", "fragment_builder", "jsx_text_fn", "tag_fn", "resolve_directive_fn"):
        b = C.role(ctx, role)
        if not b:
            continue
        r.saw(b["path"])
        n_calls = 0
        bad = []
        for n in walk(b["body"]):
            if n.get("k") == "Struct" and n.get("adt") == AST + "CallExpr":
                n_calls += 1
                sp = {f["name"]: f["e"] for f in n["fields"]}.get("span")
                t = expr_str(sp) if sp is not None else "<default>"
                if t != "DUMMY_SP":
                    bad.append((n, t))
        r.ob("%s: every constructed CallExpr has span DUMMY_SP" % role, not bad, C.mloc(b, bad[0][0]) if bad else C.mloc(b, b),
             "%d CallExpr literal(s)" % n_calls if not bad else "span is `%s`: as the single child of a component this generated call is taken for a user call" % bad[0][1])
    # and the arm tests exactly that
    ch = C.role(ctx, "children_builder")
    if ch:
        t = expr_str(ch["body"])
        r.ob("the call-child arm excludes DUMMY_SP calls", "(expr.span() != DUMMY_SP)" in t, C.mloc(ch, ch), "guard present" if "(expr.span() != DUMMY_SP)" in t else "missing")
    return r


def rules(ctx):
    from ..engine import only
    from . import c06
    return [__import__('vjsx.engine', fromlist=['x']).only(__import__('vjsx.rules.c10', fromlist=['x']).r10_1, lambda k: 'assignment_left' in k, 'the snapshot of an assigned variable (`_x`) is made for the one assignment it belongs to, not for later slots'), __import__('vjsx.rules.c10', fromlist=['x']).field_ratchet('slot construction must not depend on visitor state beyond the documented registries'), r03_1, r03_3, r03_4, c11.r11_2, c02.r02_3, c06.r06_9,
            only(c01.r01_1, lambda k: k.startswith(("component predicate", "the Fragment name")), "which hosts are components"),
            only(c14.r14_5, lambda k: "enable_object_slots" in k, "reach of enableObjectSlots")]


EXPLANATION = (
    "R03.1: the dispatch table of the children builder — [] / single non-spread child by Expr variant with its guard / several — compared "
    "entry by entry with the property's table, including the object-slot conditional (test = slot helper on the child, consequent = child "
    "or temp, alternate = wrapped default slot) and the always-wrap branch when enableObjectSlots is off. R03.3: every component tail "
    "expression that builds a slots object uses the v-slots carrier (two arms do not: known finding) and the wrapper merges it beside "
    "`default`. R03.4: generated CallExpr literals carry DUMMY_SP, which the call-child guard relies on. R11.2 (laziness, call child "
    "once), R01.1 (host classes) and R14.5 (reach of enableObjectSlots) are shared."
)
ASSUMPTIONS = ["which branch `_isSlot` takes for a runtime value is not modelled"]
TRUSTED = ["rustc nightly typed HIR"]
LEVEL = "other"
LEVEL_TEXT = "Dispatch-table and template checks on the resolved program; known finding: v-slots dropped beside a function / object-literal child."
LEVEL_NOTE = "Trusted: rustc HIR. Not decided: runtime behaviour of _isSlot."
TECHNIQUE = "table extraction (A6) + construction templates (A9) on typed HIR"
