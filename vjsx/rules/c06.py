"""C06 — every name the transform introduces is bound, in scope, initialised, and used."""
import re
from ..facts import AST, VISITOR_CRATE, walk, walk_with_parents, strip_transparent, local_of, field_path, const_str
from ..engine import Rule
from ..cfg import const_range_of, calls, callee_name, place_of, op_const
from . import common as C
from .mirflow import self_field_of, mut_events
from .influence import flow_of, controlling_fields, switch_fields
from .state import access_index, root_path, first_field
from .hirflow import HirIndex
from . import c09, c10

REGISTRIES = c09.REGISTRIES


def r06_1(ctx):
    r = Rule("R06.1", "pending declarations are scoped: saved at scope entry, drained, restored (P1 on injecting_vars / injecting_consts)",
             "a declaration drained by the wrong scope leaves its use unbound")
    for name in ("injecting_vars", "injecting_consts"):
        c10._check_scope(ctx, r, name)
    for hb, mb in c10._method_bodies(ctx):
        r.saw(mb["path"])
    return r


def _module_method(ctx):
    ms = [(hb, mb) for hb, mb in c10._method_bodies(ctx) if c10._is_root_method(hb)]
    return ms[0] if len(ms) == 1 else None


def _adders(ctx):
    """functions that (transitively) add to each registry: {registry: set(path)}"""
    nodes, edges = C.call_graph(ctx)
    direct = {}
    ADD = re.compile(r"(Vec::<T, A>::(push|insert|extend|append)|BTreeMap::<K, V, A>::(entry|insert)|Option::<T>::(get_or_insert_with|get_or_insert|insert|replace))$")
    for k, b in nodes.items():
        if k[0] != VISITOR_CRATE or k[1].endswith("::new"):
            continue
        fl = flow_of(ctx, b)
        for e in mut_events(b, fl):
            if e["kind"] != "call" or not ADD.search(e["callee"]):
                continue
            for f in self_field_of(e["sources"]):
                ff = first_field(f)
                if ff in REGISTRIES:
                    direct.setdefault(ff, set()).add(k)
    # close over callers
    out = {}
    for reg, ks in direct.items():
        seen = set(ks)
        changed = True
        while changed:
            changed = False
            for k, es in edges.items():
                if k not in seen and es & seen and "VisitMut>::visit_mut_" not in k[1]:
                    seen.add(k)
                    changed = True
        out[reg] = seen
    return out


def r06_3(ctx):
    r = Rule("R06.3", "emission is complete and last: after the module traversal every registry is tested and, when non-empty, emitted; nothing registers after its own emission",
             "an unemitted registry entry is a free variable; an entry added after emission is never imported/declared")
    mm = _module_method(ctx)
    if mm is None:
        r.ob("module method found", False, "-", "no unique VisitMut method over Module")
        return r
    hb, mb = mm
    r.saw(mb["path"])
    g = C.cfg_of(ctx, mb)
    fl = flow_of(ctx, mb)
    tb = c10._traversal_blocks(mb, ctx.facts)
    if not tb:
        r.ob("module method traverses", False, "-", "no child traversal")
        return r
    T = tb[-1]
    after = g.reach_after(T)
    adders = _adders(ctx)
    for reg in REGISTRIES:
        # test blocks: switches after T depending on the registry
        tests = [b for b in after if reg in {first_field(f) for f in switch_fields(ctx, mb, b)}]
        key = "module end emits %s" % reg
        if not tests:
            r.ob(key, False, C.mloc(mb, mb), "registry `%s` is never tested after the module traversal: its entries are not emitted" % reg)
            continue
        # the first test must lie on every path T -> return
        on_all = [b for b in tests if g.must_pass({b}, start=T)]
        # an insertion controlled by the test, whose value depends on the registry
        ins_ok = False
        for i, t in calls(mb):
            if i in after and re.search(r"Vec::<T, A>::(insert|push|extend|splice)$", callee_name(t)) and t.get("arg_tys", [""])[0].startswith("&mut alloc::vec::Vec<" + AST + "ModuleItem>"):
                cf = controlling_fields(ctx, mb, i)
                if reg in {first_field(f) for f in cf}:
                    ins_ok = True
        if not on_all:
            e = g.escaping_exit(set(tests), start=T)
            r.ob(key, False, C.mloc(mb, mb["blocks"][tests[0]]["term"]), "a path from the traversal to return (bb%s) skips the emission test of `%s`" % (e, reg))
        elif not ins_ok:
            r.ob(key, False, C.mloc(mb, mb["blocks"][tests[0]]["term"]), "no insertion into the module body is controlled by the test of `%s`" % reg)
        else:
            r.ob(key, True, C.mloc(mb, mb["blocks"][on_all[0]]["term"]), "tested in bb%d on every path after the traversal; a guarded insertion follows" % on_all[0])
        # nothing registers into reg after its emission test
        first_test = min(on_all) if on_all else min(tests)
        late = []
        for i, t in calls(mb):
            if i in g.reach_after(first_test) or (i == first_test):
                tgt = (mb["crate"], callee_name(t))
                if tgt in adders.get(reg, ()):  # local adder called after the emission started
                    if i != first_test:
                        late.append((i, t))
        if late:
            r.ob("nothing registers into %s after its emission" % reg, False, C.mloc(mb, late[0][1]),
                 "%s is called after `%s` has been emitted: the entry it creates is never emitted" % (callee_name(late[0][1]).split("::")[-1], reg))
        else:
            r.ob("nothing registers into %s after its emission" % reg, True, "-", "no adder of %s is reachable after its emission test (bb%d)" % (reg, first_test))
    return r


def r06_2(ctx):
    r = Rule("R06.2", "generated declarations are inserted before the statements that use them (head insertion)",
             "a `let` appended after its use is read before it is declared")
    for hb, mb in c10._method_bodies(ctx):
        node_ty = hb["inputs"][1] if len(hb["inputs"]) > 1 else ""
        for e in c09.node_events(ctx, mb, {2}):
            if e["kind"] != "call":
                continue
            if not re.match(r"&mut alloc::vec::Vec<swc_ecma_ast::(Stmt|ModuleItem)>", e["arg_ty"]):
                continue
            cal = e["callee"]
            short = cal.split("::")[-1]
            r.saw(mb["path"])
            key = "%s: %s into the statement list" % (hb["name"], short)
            if short == "insert":
                idx = e["node"]["args"][1]
                c = op_const(idx)
                if c is not None and c.get("int") == 0:
                    r.ob(key, True, C.mloc(mb, e["node"]), "insert at constant index 0")
                else:
                    r.ob(key, False, C.mloc(mb, e["node"]), "insert at a computed index: the declaration is not shown to come before the statements that use the temporary")
            elif short == "splice":
                rng = const_range_of(mb, e["node"]["args"][1]) if len(e["node"].get("args", [])) > 1 else None
                if rng == (0, 0):
                    r.ob(key, True, C.mloc(mb, e["node"]), "splice of the empty range 0..0: insertion at the head")
                else:
                    r.ob(key, None, C.mloc(mb, e["node"]), "splice over a range that is not the constant 0..0: not decided")
            elif short in ("push", "extend", "append", "extend_from_slice"):
                r.ob(key, False, C.mloc(mb, e["node"]), "generated statement appended at the end of a user statement list: it runs after the code that uses it")
    # de-duplicate
    seen = {}
    for o in r.obs:
        c = seen.get(o["key"], 0)
        seen[o["key"]] = c + 1
        if c:
            o["key"] += " #%d" % (c + 1)
    return r


def r06_5(ctx):
    r = Rule("R06.5", "every helper obtained from the import function / helper registries is used in the output",
             "an import nobody uses is dead; a use without the import is unbound")
    imp = C.role_or_fail(ctx, r, "import_fn")
    if not imp:
        return r
    factories = {imp["path"]}
    for role in ("slot_ident_fn",):
        b = C.role(ctx, role)
        if b:
            factories.add(b["path"])
    for b in ctx.facts.mir:
        if b["crate"] != VISITOR_CRATE:
            continue
        for i, t in calls(b):
            if callee_name(t) not in factories:
                continue
            r.saw(b["path"])
            d = t["dest"]["l"]
            used = False
            for blk in b["blocks"]:
                if blk.get("cleanup"):
                    continue
                for s in blk["stmts"]:
                    if s["k"] == "assign" and _mentions(s["rv"], d):
                        used = True
                tt = blk.get("term") or {}
                if tt.get("k") == "call" and any(_mentions(a, d) for a in tt["args"]):
                    used = True
            if d == 0:
                used = True     # returned
            arg = op_const(t["args"][1]) if len(t["args"]) > 1 else None
            what = (arg or {}).get("str", "?")
            r.ob("%s: result of %s(%s) is used" % (root_path(b), callee_name(t).split("::")[-1], what), used, C.mloc(b, t),
                 "moved into the output tree" if used else "the identifier is dropped: the helper is imported/declared but never referenced")
    seen = {}
    for o in r.obs:
        c = seen.get(o["key"], 0)
        seen[o["key"]] = c + 1
        if c:
            o["key"] += " #%d" % (c + 1)
    return r


def _mentions(o, local):
    if isinstance(o, dict):
        if o.get("l") == local and "s" in o:
            return True
        return any(_mentions(v, local) for v in o.values())
    if isinstance(o, list):
        return any(_mentions(v, local) for v in o)
    return False


# ---- R06.6 binding identifiers are fresh --------------------------------------------------
ALLOWED_CONST_BINDINGS = {
    "$event": "listener parameter: empty syntax context; the resolver gives every user identifier a non-empty context, so it cannot capture or be captured (hygiene renames on clash)",
    "s": "",
}


class Origin:
    def __init__(self, ctx):
        self.ctx = ctx
        self.idx = {}
        self.memo = {}
        self.bodies = {b["path"]: b for b in ctx.facts.hir if b["crate"] == VISITOR_CRATE and not b.get("mac")}

    def index(self, body):
        if body["path"] not in self.idx:
            self.idx[body["path"]] = HirIndex(body)
        return self.idx[body["path"]]

    def of(self, body, node, depth=0):
        """set of origins: 'private', 'const:<s>', 'input', 'unknown:<why>'"""
        if depth > 10:
            return {"unknown:depth"}
        idx = self.index(body)
        macs = node.get("mac") or []
        if "private_ident" in macs:
            return {"private"}
        n = strip_transparent(node)
        macs = n.get("mac") or []
        if "private_ident" in macs:
            return {"private"}
        if "quote_ident" in macs:
            for x in walk(n):
                s = const_str(x) if not (x.get("mac") and "quote_ident" in x["mac"] and x.get("k") != "Lit") else None
                if x.get("k") == "Lit" and x.get("lit") == "str":
                    return {"const:" + x["v"]}
            return {"unknown:quote_ident of non-constant"}
        k = n.get("k")
        if k in ("Call", "MethodCall") and n.get("callee") in self.bodies:
            fb = self.bodies[n["callee"]]
            if fb["output"] == AST + "Ident":
                key = ("ret", fb["path"])
                if key in self.memo:
                    return self.memo[key]
                self.memo[key] = {"unknown:recursive"}
                res = self.of(fb, _tail(fb["body"]), depth + 1)
                self.memo[key] = res
                return res
        if k == "MethodCall" and n["method"] in ("get_or_insert_with", "or_insert_with_key", "or_insert_with", "unwrap_or_else", "map") and n["args"] and n["args"][-1].get("k") == "Closure":
            out = self.of(body, _tail(n["args"][-1]["body"]), depth + 1)
            if n["method"] in ("unwrap_or_else",):
                out = out | self.of(body, n["recv"], depth + 1)
            return out
        if k == "MethodCall" and n["method"] in ("or", "or_else", "entry", "as_ref", "unwrap_or"):
            return self.of(body, n["recv"], depth + 1)
        if k == "Path" and n["res"].get("r") == "local":
            b = idx.binding.get(n["res"]["id"])
            if b is None:
                return {"unknown:unbound"}
            if b["kind"] == "let" and b.get("init") is not None:
                path = b.get("path") or ()
                init = b["init"]
                ity = (init.get("tya") or init.get("ty") or "")
                if path and any(p[0] in ("field", "tfield") and p[2] != "Some" for p in path):
                    # destructured from something: input AST if the scrutinee is an AST value, registry if self field
                    fp = field_path(strip_transparent(init)) or ""
                    if fp.startswith("self."):
                        return self.field_origin(fp.split(".")[1], depth)
                    return {"input"}
                if path:
                    fp = field_path(strip_transparent(init)) or ""
                    if fp.startswith("self."):
                        return self.field_origin(fp.split(".")[1], depth)
                return self.of(body, init, depth + 1)
            if b["kind"] == "param":
                if b.get("closure") is not None:
                    # iterator item: classify the collection
                    par = idx.parent.get(id(b["closure"]))
                    base = par["recv"] if par is not None and par.get("k") == "MethodCall" else None
                    while base is not None and strip_transparent(base).get("k") == "MethodCall" and strip_transparent(base)["method"] in ("iter", "into_iter", "iter_mut", "enumerate", "map", "filter"):
                        base = strip_transparent(base)["recv"]
                    fp = field_path(strip_transparent(base)) if base is not None else None
                    if fp and fp.startswith("self."):
                        return self.field_origin(fp.split(".")[1], depth)
                    return {"input"}
                # fn parameter: join over call sites
                out = set()
                sites = 0
                for cb in self.bodies.values():
                    for x in walk(cb["body"]):
                        if x.get("k") in ("Call", "MethodCall") and x.get("callee") == body["path"]:
                            args = x["args"] if x["k"] == "Call" else [x["recv"]] + x["args"]
                            if b["index"] < len(args):
                                sites += 1
                                out |= self.of(cb, args[b["index"]], depth + 1)
                return out or {"unknown:param without call site"}
        if k == "Field":
            fp = field_path(n) or ""
            if fp.startswith("self."):
                return self.field_origin(fp.split(".")[1], depth)
            return {"input"}
        if k == "If":
            out = self.of(body, _tail(n["then"]), depth + 1)
            if n.get("else") is not None:
                out |= self.of(body, _tail(n["else"]), depth + 1)
            return out
        if k == "Match":
            out = set()
            for arm in n["arms"]:
                out |= self.of(body, _tail(arm["body"]), depth + 1)
            return out
        if k == "Block":
            return self.of(body, _tail(n), depth + 1)
        return {"unknown:%s" % k}

    def field_origin(self, fname, depth):
        key = ("field", fname)
        if key in self.memo:
            return self.memo[key]
        self.memo[key] = set()
        out = set()
        for b in self.bodies.values():
            for x in walk(b["body"]):
                if x.get("k") == "MethodCall" and x["method"] in ("get_or_insert_with", "or_insert_with_key", "or_insert_with", "insert"):
                    recv = x["recv"]
                    if strip_transparent(recv).get("k") == "MethodCall" and strip_transparent(recv)["method"] == "entry":
                        recv = strip_transparent(recv)["recv"]
                    fp = field_path(strip_transparent(recv)) or ""
                    if fp == "self." + fname:
                        out |= self.of(b, x, depth + 1)
                if x.get("k") == "Assign":
                    fp = field_path(strip_transparent(x["l"])) or ""
                    if fp == "self." + fname:
                        v = strip_transparent(x["r"])
                        if v.get("k") == "Ctor" and v.get("variant") == "Some" and v["args"]:
                            out |= self.of(b, v["args"][0], depth + 1)
        self.memo[key] = out or {"unknown:field %s has no writer" % fname}
        return self.memo[key]


def _tail(n):
    while n.get("k") == "Block" and n.get("expr") is not None:
        n = n["expr"]
    return n


BINDING_SITES = [
    (AST + "BindingIdent", "id"),
    (AST + "ImportDefaultSpecifier", "local"),
    (AST + "ImportNamedSpecifier", "local"),
    (AST + "ImportStarAsSpecifier", "local"),
    (AST + "FnDecl", "ident"),
    (AST + "ClassDecl", "ident"),
]


def r06_6(ctx):
    r = Rule("R06.6", "identifiers placed in binding positions are private (fresh mark) identifiers", "a generated binding with a plain name captures or shadows a user binding")
    org = Origin(ctx)
    counters = {}
    for b in org.bodies.values():
        for n in walk(b["body"]):
            if n.get("k") != "Struct":
                continue
            for adt, fld in BINDING_SITES:
                if n.get("adt") != adt:
                    continue
                fe = {f["name"]: f["e"] for f in n["fields"]}.get(fld)
                if fe is None:
                    continue
                r.saw(b["path"])
                origins = org.of(b, fe)
                base = "%s: %s.%s" % (b["path"], adt.split("::")[-1], fld)
                c = counters.get(base, 0)
                counters[base] = c + 1
                key = base if c == 0 else "%s #%d" % (base, c + 1)
                bad = [o for o in origins if o != "private" and not (o.startswith("const:") and o[6:] in ALLOWED_CONST_BINDINGS and ALLOWED_CONST_BINDINGS[o[6:]])]
                # bindings re-used from the input inside JSX-attribute rewriting are not generated bindings
                if not bad:
                    why = "private identifier" if origins == {"private"} else "; ".join(sorted(origins)) + " — " + "; ".join(ALLOWED_CONST_BINDINGS.get(o[6:], "") for o in origins if o.startswith("const:"))
                    r.ob(key, True, C.mloc(b, n), why)
                elif all(o == "input" for o in bad):
                    r.ob(key, None, C.mloc(b, n), "binding identifier copied from the input (not generated)")
                else:
                    r.ob(key, False, C.mloc(b, n), "binding identifier is not shown to be fresh: " + ", ".join(sorted(bad)))
    return r


def r06_7(ctx):
    r = Rule("R06.7", "a generated declaration whose initialiser reads a user variable is not hoisted to the head of the enclosing list",
             "hoisting it above the variable's own declaration reads the variable in its temporal dead zone")
    # which pending list receives declarators with an input-dependent initialiser?
    org_lists = {}
    for b in ctx.facts.hir:
        if b["crate"] != VISITOR_CRATE or b.get("mac"):
            continue
        idx = None
        for n in walk(b["body"]):
            if n.get("k") == "MethodCall" and n["method"] == "push":
                fp = field_path(strip_transparent(n["recv"])) or ""
                if fp in ("self.injecting_vars", "self.injecting_consts") and n["args"]:
                    decl = strip_transparent(n["args"][0])
                    if decl.get("k") == "Struct" and decl.get("adt") == AST + "VarDeclarator":
                        init = {f["name"]: f["e"] for f in decl["fields"]}.get("init")
                        has_init = init is not None and not (strip_transparent(init).get("k") == "Path" and strip_transparent(init)["res"].get("variant") == "None")
                        reads_input = False
                        if has_init:
                            idx = idx or HirIndex(b)
                            for x in walk(init):
                                lo = local_of(x) if x.get("k") == "Path" else None
                                if lo:
                                    bd = idx.binding.get(lo[1])
                                    if bd and (bd.get("path") or bd["kind"] == "param") and (x.get("ty") or "").startswith(AST):
                                        reads_input = True
                        org_lists.setdefault(fp.split(".")[1], []).append((b, n, reads_input))
    for lst, items in sorted(org_lists.items()):
        for b, n, reads_input in items:
            r.saw(b["path"])
            if not reads_input:
                r.ob("%s: declarations pushed to %s have no user-dependent initialiser" % (b["path"], lst), True, C.mloc(b, n), "initialiser-free temporary")
            else:
                # where is this list drained? head insertion is the defect
                head = []
                for hb, mb in c10._method_bodies(ctx):
                    for e in c09.node_events(ctx, mb, {2}):
                        if e["kind"] == "call" and (e["callee"].endswith("Vec::<T, A>::insert") or c09._empty_head_splice(mb, e)):
                            cf = controlling_fields(ctx, mb, e["bb"])
                            if lst in {first_field(f) for f in cf}:
                                head.append(hb["name"])
                r.ob("%s: captured copies pushed to %s are not hoisted to index 0" % (b["path"], lst), not head, C.mloc(b, n),
                     ("drained by head insertion in %s: `const _x = function(){return x}()` can run before `let x`" % ", ".join(sorted(set(head)))) if head else "not head-inserted")
    return r


def r06_8(ctx):
    r = Rule("R06.8", "a helper / import is requested only where its identifier is emitted: the result of every registering call is used on every path that follows",
             "an identifier requested and then dropped on some path leaves an unused import / helper declaration in the output")
    from ..cfg import calls, callee_name, place_of
    regs = {}
    for role in ("import_fn", "slot_helper_fn", "slot_ident_fn"):
        b = C.role(ctx, role)
        if b is not None:
            regs[b["path"]] = role
    n = 0
    for mb in ctx.facts.mir:
        if mb["crate"] != VISITOR_CRATE or mb.get("mac"):
            continue
        sites = [(i, t) for i, t in calls(mb) if callee_name(t) in regs and t.get("target") is not None]
        if not sites:
            continue
        r.saw(mb["path"])
        g = C.cfg_of(ctx, mb)
        for i, t in sites:
            n += 1
            d = t["dest"]["l"]
            # blocks that read the result (a drop / storage marker is not a use)
            users = set()
            holders = {d}
            changed = True
            while changed:
                changed = False
                for blk in mb["blocks"]:
                    if blk.get("cleanup"):
                        continue
                    for st in blk["stmts"]:
                        if st["k"] != "assign":
                            continue
                        reads = {p["l"] for p in _places_in(st["rv"])}
                        if reads & holders:
                            # a plain move / copy / borrow into another local keeps holding the value; anything else consumes it
                            if st["rv"].get("rk") in ("use", "ref") and not st["lhs"].get("p"):
                                if st["lhs"]["l"] not in holders:
                                    holders.add(st["lhs"]["l"])
                                    changed = True
                            else:
                                users.add(blk["i"])
                    tt = blk.get("term") or {}
                    if tt.get("k") == "call" and {p["l"] for p in _places_in(tt["args"])} & holders:
                        if callee_name(tt).endswith("::clone") and tt["dest"]["l"] not in holders:
                            holders.add(tt["dest"]["l"])
                            changed = True
                        elif not callee_name(tt).endswith("::clone"):
                            users.add(blk["i"])
                    if tt.get("k") == "return" and 0 in holders:
                        users.add(blk["i"])
            ok = bool(users) and g.must_pass(users, start=t["target"])
            esc = None if ok else g.escaping_exit(users, start=t["target"])
            key = "%s: result of %s is used on every path" % (mb["path"], regs[callee_name(t)])
            c = sum(1 for o in r.obs if o["key"].startswith(key))
            r.ob(key if not c else "%s #%d" % (key, c + 1), ok, C.mloc(mb, t),
                 "used in bb%s on every path from the call" % sorted(users) if ok else
                 "a path from the call reaches the end of the function (bb%s) without using the identifier: the import / helper is registered but not referenced" % esc)
    r.ob("registering calls examined", n > 0, "-", "%d call(s) of %s" % (n, sorted(regs.values())))
    return r


def r06_9(ctx):
    r = Rule("R06.9", "every slot temporary that is handed out is declared: the function that makes `_slotN` pushes its declarator on every path",
             "a conditional declaration leaves `_slot = f()` assigning an undeclared variable (a ReferenceError in a module)")
    from ..cfg import calls, callee_name
    from .influence import flow_of
    from .mirflow import self_field_of
    from .state import first_field
    b = C.role_or_fail(ctx, r, "slot_ident_fn")
    if not b:
        return r
    mb = C.mir_of(ctx, b)
    r.saw(mb["path"])
    g = C.cfg_of(ctx, mb)
    fl = flow_of(ctx, mb)
    pushes = {i for i, t in calls(mb) if callee_name(t).endswith("Vec::<T, A>::push") and t["args"]
              and "injecting_vars" in {first_field(f) for f in self_field_of(fl.op_sources(t["args"][0]))}}
    ok = bool(pushes) and g.must_pass(pushes)
    r.ob("the declarator of a new slot temporary is pushed on every path", ok, C.mloc(mb, mb),
         "injecting_vars.push(..) in bb%s on every path" % sorted(pushes) if ok else
         ("a path returns the identifier (bb%s) without declaring it" % g.escaping_exit(pushes) if pushes else "no push to injecting_vars"))
    return r


def _places_in(o):
    if isinstance(o, dict):
        if "l" in o and "s" in o:
            yield o
            return
        for v in o.values():
            yield from _places_in(v)
    elif isinstance(o, list):
        for v in o:
            yield from _places_in(v)


def rules(ctx):
    from . import c15
    from . import c20
    return [r06_1, r06_2, r06_3, r06_5, r06_6, r06_7, r06_8, r06_9, c15.r15_2, c20.r20_5,
            __import__('vjsx.rules.c10', fromlist=['x']).field_ratchet('a generated name remembered on the visitor can be used in a scope where its declaration is not')]


EXPLANATION = (
    "R06.1: pending declarations follow scope discipline in every VisitMut method that drains them (take before the child traversal, "
    "restore on every path after the drain; what is taken out of a pending list after the traversal is moved into the output on every path "
    "that does not know it to be empty). R06.2: generated statements enter user statement lists only by insertion at constant index 0. "
    "R06.3: after the module traversal each of the five registries is tested on every path and emitted under that test, and no function "
    "that can add to a registry is reachable after that registry's emission. R06.5: every identifier obtained from the import function / "
    "slot-temp factory is moved into the output (imports are used). R06.6: every identifier placed in a binding position (BindingIdent, "
    "import locals, FnDecl.ident) originates from private_ident! (fresh mark), the only constant exception being `$event`. R06.7: captured "
    "copies with a user-dependent initialiser must not be head-inserted. R15.2 (shared): createVNode is imported only in the pragma fallback."
)
ASSUMPTIONS = [
    "the SWC resolver ran before the pass: every user identifier has a non-empty syntax context; hygiene renames by (symbol, context)",
    "private_ident! yields an identifier whose mark is fresh (Mark::new())",
    "free variables of arbitrary outputs and TDZ of user bindings are not computed",
]
TRUSTED = ["rustc nightly HIR/MIR", "swc resolver + hygiene", "swc_ecma_visit order"]
LEVEL = "other"
LEVEL_TEXT = ("Structural necessary conditions for 'bound, in scope, initialised, used', each decided for all paths of the resolved program: "
              "scope discipline of pending declarations, head insertion, complete and final emission of all registries, use of every "
              "obtained helper, freshness of binding identifiers. One genuine defect (captured copy hoisted above the captured variable) is "
              "a recorded known finding pinned by an existing snapshot.")
LEVEL_NOTE = "Trusted: rustc HIR/MIR, SWC resolver/hygiene. Not decided: free-variable sets of outputs; TDZ of user variables beyond R06.7."
TECHNIQUE = "MIR dominance / must-pass-through / control dependence on registry tests + HIR origin tracing of binding identifiers"
