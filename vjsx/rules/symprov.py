"""Provenance of strings that become identifier symbols / object keys (HIR based)."""
from ..facts import AST, walk, strip_transparent, const_str, local_of, children
from .hirflow import HirIndex, calls_in, same_local
from . import common as C

VALIDATORS = {
    "swc_ecma_ast::Ident::verify_symbol": "result",
    "swc_ecma_utils::is_valid_prop_ident": "bool",
    "swc_ecma_utils::is_valid_ident": "bool",
    "swc_ecma_ast::Ident::is_valid_start": "bool",
    "swc_ecma_ast::Ident::is_valid_continue": "bool",
    "swc_ecma_ast::Ident::is_valid_ascii_start": "bool",
    "swc_ecma_ast::Ident::is_valid_ascii_continue": "bool",
}

IDENT_TYPES = (AST + "Ident", AST + "IdentName", AST + "BindingIdent", AST + "PrivateName")


def format_parts(fmt_call):
    """fmt_call: the `alloc::fmt::format(...)` Call node. Returns list of ('lit', s) / ('arg', node) or None."""
    if fmt_call.get("k") == "MethodCall" and fmt_call.get("method") in ("concat", "join"):
        # `[a, "lit", b].concat()` / `.join("")`: the pieces in order
        arr = strip_transparent(fmt_call["recv"])
        parts = []
        for it in arr.get("items", []):
            it = strip_transparent(it)
            s = const_str(it)
            parts.append(("lit", s) if s is not None else ("arg", it))
        return parts
    if fmt_call.get("k") == "Binary":
        # `a.to_string() + "lit" + b`
        parts = []
        for side in (fmt_call["l"], fmt_call["r"]):
            side = strip_transparent(side)
            sub = find_format_call(side)
            if sub is not None:
                sp = format_parts(sub)
                if sp is None:
                    return None
                parts += sp
            else:
                s = const_str(side)
                parts.append(("lit", s) if s is not None else ("arg", side))
        return parts
    tmpl = None
    for n in walk(fmt_call):
        if n.get("k") == "Lit" and n.get("lit") == "bytes" and "vb" in n:
            tmpl = n["vb"]
            break
    args = []
    for n in walk(fmt_call):
        if n.get("k") == "Let" and n["pat"].get("k") == "PBind" and n["pat"].get("name") == "args" and n.get("init", {}).get("k") == "Tup":
            args = [strip_transparent(x) for x in n["init"]["items"]]
            break
    if tmpl is None:
        # a format string without arguments is lowered to from_str(literal)
        for n in walk(fmt_call):
            if n.get("k") == "Lit" and n.get("lit") == "str":
                return [("lit", n["v"])]
        return None
    parts = []
    i = 0
    ai = 0
    while i < len(tmpl):
        b = tmpl[i]
        if b == 0:
            break
        if b < 0x80:
            parts.append(("lit", bytes(tmpl[i + 1:i + 1 + b]).decode("utf-8", "replace")))
            i += 1 + b
        elif b == 0xC0:
            if ai >= len(args):
                return None
            parts.append(("arg", args[ai]))
            ai += 1
            i += 1
        else:
            return None
    return parts


def find_format_call(node):
    """if node (peeled) is a format!(..) expansion return its alloc::fmt::format Call"""
    n = strip_transparent(node)
    if n.get("k") == "MethodCall" and n.get("method") == "concat" and strip_transparent(n["recv"]).get("k") == "Array" \
            and (n.get("ty") or "").endswith("String"):
        return n
    if n.get("k") == "MethodCall" and n.get("method") == "join" and strip_transparent(n["recv"]).get("k") == "Array" \
            and (n.get("ty") or "").endswith("String") and n["args"] and const_str(strip_transparent(n["args"][0])) == "":
        return n
    if n.get("k") == "Binary" and n.get("op") == "+" and (n.get("ty") or "").endswith("alloc::string::String"):
        return n
    if "format" in (n.get("mac") or []) or n.get("callee") in ("core::hint::must_use", "alloc::fmt::format"):
        for x in walk(n):
            if x.get("k") == "Call" and x.get("callee") == "alloc::fmt::format":
                return x
    return None


class SymProv:
    """classify where the text of a symbol comes from"""

    def __init__(self, ctx):
        self.ctx = ctx
        self.idx = {}

    def index(self, body):
        k = (body["crate"], body["path"])
        if k not in self.idx:
            self.idx[k] = HirIndex(body)
        return self.idx[k]

    def root_local(self, body, node, depth=0):
        """follow `let a = b.into()`-style copies back to the first local that is not such a copy"""
        idx = self.index(body)
        lo = local_of(node)
        if lo is None or depth > 8:
            return lo
        b = idx.binding.get(lo[1])
        if b and b["kind"] == "let" and not b.get("path") and b.get("init") is not None:
            inner = self.root_local(body, b["init"], depth + 1)
            if inner is not None:
                return inner
        return lo

    def validated_here(self, body, node, sym_node):
        """is `sym_node`'s local known-valid at `node` through an enclosing condition?"""
        idx = self.index(body)
        target = self.root_local(body, sym_node)
        if target is None:
            return None
        for fact in idx.known_true(node):
            if isinstance(fact, tuple):
                continue
            # the fact itself must be the validator call (or `.is_ok()` of it): a validator that is one side of an `||` is not known to hold
            core = strip_transparent(fact)
            cands = [core]
            if core.get("k") == "MethodCall" and core.get("method") == "is_ok":
                cands.append(strip_transparent(core["recv"]))
            for c in cands:
                callee = c.get("callee", "") if c.get("k") in ("Call", "MethodCall") else ""
                if callee in VALIDATORS:
                    arg = c["args"][0] if c.get("k") == "Call" and c["args"] else (c.get("recv") if c.get("k") == "MethodCall" else None)
                    if arg is not None and self.root_local(body, arg) == target:
                        # verify_symbol(..) must be wrapped in is_ok()
                        if VALIDATORS[callee] == "result":
                            if fact.get("k") == "MethodCall" and fact.get("method") == "is_ok":
                                return callee
                        else:
                            return callee
        return None

    def diag_before(self, body, node):
        """a Handler::span_err call precedes `node` in an enclosing block"""
        idx = self.index(body)
        for s in idx.preceding_stmts(node):
            if unconditional_diag(s):
                return True
        return False

    def prov(self, body, node, depth=0):
        """returns list of (kind, detail) leaves; kinds:
        const, input_ident, int, validated, unknown, param, field, str_value"""
        if depth > 12:
            return [("unknown", "depth")]
        idx = self.index(body)
        n = strip_transparent(node)
        cs = const_str(n)
        if cs is not None:
            return [("const", cs)]
        if n.get("k") == "Lit" and n.get("lit") == "int":
            return [("int", str(n["v"]))]
        if "atom" in (n.get("mac") or []):
            # atom!("x") expands to a nested `fn get_atom()` holding the literal
            for x in walk(n):
                if x.get("k") == "Lit" and x.get("lit") == "str":
                    return [("const", x["v"])]
                if x.get("k") == "Call" and x.get("callee_dp"):
                    for mb in self.ctx.facts.mir:
                        if mb["crate"] == body["crate"] and mb.get("dp", "").startswith(x["callee_dp"] + "::CACHE::{closure"):
                            for blk in mb["blocks"]:
                                t = blk.get("term") or {}
                                for a in t.get("args", []):
                                    c = a.get("const") if isinstance(a, dict) else None
                                    if c and "str" in c:
                                        return [("const", c["str"])]
            return [("unknown", "atom! literal not found")]
        fc = find_format_call(n)
        if fc is not None:
            parts = format_parts(fc)
            if parts is None:
                return [("unknown", "format template not decoded")]
            out = []
            for kind, v in parts:
                if kind == "lit":
                    out.append(("const_piece", v))
                else:
                    out += self.prov(body, v, depth + 1)
            return [("format", out)]
        k = n.get("k")
        if k == "Ctor" and n.get("variant") == "Some" and n.get("args"):
            return self.prov(body, n["args"][0], depth + 1)
        if k == "Path" and n["res"].get("r") == "def" and n["res"].get("variant") == "None":
            return []
        if k == "Field":
            base = n["e"]
            bty = (base.get("tya") or base.get("ty") or "").lstrip("&").replace("mut ", "")
            if n["name"] == "sym" and any(bty.endswith(t) for t in IDENT_TYPES):
                return [("input_ident", bty)]
            if n["name"] == "value" and bty.endswith(AST + "Str"):
                return [("str_value", "Str.value")]
            if n["ty"] in ("usize", "u32", "u64", "u8", "i32"):
                return [("int", n["name"])]
            fp = _field_chain(n)
            if _is_collection(n.get("ty", "")):
                return [("collection", (n["ty"], fp, ()))]
            return [("field", fp)]
        if k == "Path" and n["res"].get("r") == "local":
            b = idx.binding.get(n["res"]["id"])
            if b is None:
                return [("unknown", "unbound local " + n["res"]["name"])]
            # integer-typed locals are digits
            if n["ty"] in ("usize", "u32", "u64", "u8", "i32"):
                return [("int", n["res"]["name"])]
            if _is_collection(n.get("ty", "")) and b["kind"] == "param" and b.get("closure") is None:
                return [("collection", (n["ty"], "param " + n["res"]["name"], ()))]
            if b["kind"] == "let":
                init = b.get("init")
                if init is None:
                    return [("unknown", "uninitialised let " + n["res"]["name"])]
                path = b.get("path", ())
                if path:
                    # destructured: last field name decides
                    last = path[-1]
                    if last[0] == "field" and last[3] == "sym" and (last[1] or "").endswith(("Ident", "IdentName")):
                        return [("input_ident", last[1])]
                    if last[0] == "field" and last[3] == "value" and (last[1] or "").endswith("Str"):
                        return [("str_value", "Str.value")]
                    if all(p[0] in ("tfield", "tuple") for p in path) or (len(path) == 1 and path[0][0] == "tfield" and path[0][2] == "Some"):
                        # Option/tuple peel
                        if all(p[0] == "tfield" and p[2] == "Some" for p in path):
                            return self.prov(body, init, depth + 1)
                    return [("unknown", "destructured " + repr(path))]
                return self.prov(body, init, depth + 1)
            if b["kind"] == "param":
                if b.get("closure") is not None:
                    return self.closure_param(body, b, depth)
                return [("param", (body["path"], b["index"]))]
        if k == "MethodCall":
            m = n["method"]
            recv = n["recv"]
            if m in ("filter",) and n["args"] and n["args"][0].get("k") == "Closure":
                cl = n["args"][0]
                if cl["params"] and cl["params"][0].get("k") == "PBind":
                    pid = cl["params"][0]["id"]
                    for fact in _conj(cl["body"]):
                        for c in calls_in(fact):
                            if c.get("callee") in VALIDATORS:
                                arg = c["args"][0] if c.get("k") == "Call" and c["args"] else c.get("recv")
                                lo = local_of(arg) if arg else None
                                if lo and lo[1] == pid:
                                    if VALIDATORS[c["callee"]] == "result" and not (fact.get("k") == "MethodCall" and fact.get("method") == "is_ok"):
                                        continue
                                    return [("validated", c["callee"])]
                return self.prov(body, recv, depth + 1)
            if m in ("map", "and_then", "find_map", "or_else", "unwrap_or_else", "map_or") and n["args"] and n["args"][-1].get("k") == "Closure":
                cl = n["args"][-1]
                return self.prov(body, _tail(cl["body"]), depth + 1)
            if m == "or" and n["args"]:
                return self.prov(body, recv, depth + 1) + self.prov(body, n["args"][0], depth + 1)
            if m in ("unwrap_or", "unwrap_or_default", "unwrap", "expect", "trim", "trim_start", "trim_end", "next",
                     "strip_prefix", "strip_suffix", "split_whitespace", "split", "trim_start_matches",
                     "trim_end_matches", "to_ascii_lowercase", "to_lowercase", "iter", "into_iter", "first", "get", "pop"):
                lv = self.prov(body, recv, depth + 1)
                extra = []
                if m == "unwrap_or" and n["args"]:
                    extra = self.prov(body, n["args"][0], depth + 1)
                # substring / case operations do not preserve identifier-validity in general
                if m in ("trim", "trim_start", "trim_end", "unwrap_or", "unwrap_or_default", "unwrap", "expect", "next",
                         "iter", "into_iter", "first", "get", "pop"):
                    return lv + extra
                return [("derived", (m, lv))]
        if k == "Call" and n.get("callee"):
            cal = n["callee"]
            if cal.endswith("::get_atom") or "atom" in (n.get("mac") or []):
                for x in walk(n):
                    if x.get("k") == "Lit" and x.get("lit") == "str":
                        return [("const", x["v"])]
        if k == "If":
            out = self.prov(body, _tail(n["then"]), depth + 1)
            if n.get("else") is not None:
                out += self.prov(body, _tail(n["else"]), depth + 1)
            return out
        if k == "Match":
            out = []
            for arm in n["arms"]:
                out += self.prov(body, _tail(arm["body"]), depth + 1)
            return out
        if k == "Block":
            return self.prov(body, _tail(n), depth + 1)
        return [("unknown", "%s %s" % (k, n.get("callee") or n.get("method") or ""))]

    def closure_param(self, body, b, depth):
        """closure parameter of an iterator adapter: item of the receiver collection"""
        idx = self.index(body)
        cl = b["closure"]
        par = idx.parent.get(id(cl))
        if par is None or par.get("k") != "MethodCall":
            return [("unknown", "closure param of non-adapter")]
        m = par["method"]
        if m in ("map", "filter_map", "for_each", "find_map", "any", "all", "filter", "flat_map", "find", "fold",
                 "and_then", "or_insert_with_key", "position", "then", "then_some"):
            recv = par["recv"]
            # walk down the adapter chain to the collection
            base = recv
            while True:
                base_s = base
                if base_s.get("k") == "MethodCall" and base_s["method"] in (
                        "iter", "into_iter", "iter_mut", "map", "filter", "filter_map", "enumerate", "flatten", "peekable",
                        "rev", "cloned", "copied", "chain", "flat_map", "skip", "take", "as_ref", "as_deref", "entry"):
                    if base_s["method"] in ("map", "filter_map", "flat_map") and base_s["args"] and base_s["args"][0].get("k") == "Closure":
                        # element produced by an inner closure
                        return self.prov(body, _tail(base_s["args"][0]["body"]), depth + 1)
                    if base_s["method"] == "entry":
                        # Entry::or_insert_with_key(|key| ..): key is the entry argument
                        return self.prov(body, base_s["args"][0], depth + 1)
                    base = base_s["recv"]
                else:
                    break
            path = b.get("path", ())
            lv = self.prov(body, base, depth + 1)
            return [(k, (d[0], d[1], path)) if k == "collection" else (k, d) for k, d in lv]
        return [("unknown", "closure param of " + m)]


def unconditional_diag(stmt):
    """stmt is `HANDLER.with(|h| h.span_err(..))` (or a direct span_err call), not nested in a branch"""
    n = stmt
    while n.get("k") == "Block" and not n.get("stmts") and n.get("expr") is not None:
        n = n["expr"]
    if n.get("k") == "MethodCall" and n["method"] == "span_err" and n.get("callee", "").endswith("Handler::span_err"):
        return True
    if n.get("k") == "MethodCall" and n["method"] == "with" and n.get("callee", "").endswith("ScopedKey::<T>::with"):
        for a in n["args"]:
            if a.get("k") == "Closure":
                body = a["body"]
                # the closure body itself must be the span_err call (possibly inside a plain block)
                stack = [body]
                while stack:
                    b = stack.pop()
                    if b.get("k") == "Block":
                        stack.extend(b["stmts"])
                        if b.get("expr") is not None:
                            stack.append(b["expr"])
                    elif b.get("k") == "MethodCall" and b.get("callee", "").endswith("Handler::span_err"):
                        return True
    return False


def _is_collection(ty):
    t = ty.lstrip("&").replace("mut ", "")
    return t.startswith(("indexmap::set::IndexSet<", "indexmap::map::IndexMap<", "alloc::collections::btree::set::BTreeSet<",
                         "alloc::collections::btree::map::BTreeMap<", "alloc::vec::Vec<", "std::collections::hash::map::HashMap<",
                         "std::collections::hash::set::HashSet<"))


def _field_chain(n):
    parts = []
    while n.get("k") == "Field":
        parts.append(n["name"])
        n = strip_transparent(n["e"])
    if n.get("k") == "Path" and n["res"].get("r") == "local":
        parts.append(n["res"]["name"])
    return ".".join(reversed(parts))


def _tail(n):
    while n.get("k") == "Block":
        if n.get("expr") is not None:
            n = n["expr"]
        else:
            break
    return n


def _conj(e):
    from .hirflow import conjuncts
    return conjuncts(_tail(e))
