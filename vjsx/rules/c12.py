"""C12 — the optimize option changes hints only, never what is rendered."""
import re
from ..facts import AST, VISITOR_CRATE, walk, strip_transparent, field_path, const_str
from ..engine import Rule
from ..cfg import calls, callee_name, place_of, op_const
from . import common as C
from .mirflow import self_field_of
from .influence import flow_of, switch_fields
from .state import is_visitor_body, root_path, first_field

OPT = "options.optimize"

HINT_TY = re.compile(r"^(&mut |&)?(slot_flag::SlotFlag|core::option::Option<slot_flag::SlotFlag>|patch_flags::PatchFlags|alloc::vec::Vec<slot_flag::SlotFlag>|\[slot_flag::SlotFlag\]|bool|\(\)|i16|u8|f64)$")
# types a hint value may be wrapped in on its way into an appended argument / the `_` entry
WRAP_TY = re.compile(r"^(&mut |&)?(swc_ecma_ast::(Number|Lit|Expr|ExprOrSpread|ArrayLit|Str|KeyValueProp|Prop|PropOrSpread|PropName|IdentName)|alloc::boxed::Box<swc_ecma_ast::(Expr|Prop)>"
                     r"|core::option::Option<swc_ecma_ast::ExprOrSpread>|alloc::vec::Vec<core::option::Option<swc_ecma_ast::ExprOrSpread>>|swc_atoms::Atom|hstr::Atom|swc_common::Span|swc_common::SyntaxContext"
                     r"|indexmap::set::IndexSet<alloc::borrow::Cow<'\w+, str>>|core::option::Option<indexmap::set::IndexSet<alloc::borrow::Cow<'\w+, str>>>|alloc::borrow::Cow<'\w+, str>"
                     r"|indexmap::set::iter::IntoIter<.*>|core::iter::adapters::map::Map<.*>|core::option::Option<alloc::string::String>|core::option::Option<swc_atoms::Atom>|core::option::Option<swc_common::Span>|str|alloc::string::String|\{closure@.*\}|isize|usize|u64|i128)$")
PURE_CALLEES = re.compile(
    r"(alloc::boxed::Box::<T>::new$|::into$|::from$|patch_flags::_::<impl patch_flags::PatchFlags>::(bits|is_empty|empty|contains)$|indexmap::set::IndexSet::<T, S>::(is_empty|len|iter)$"
    r"|IntoIterator for indexmap::set::IndexSet<T, S>>::into_iter$|core::iter::traits::iterator::Iterator::(map|collect)$|core::option::Option::<T>::(unwrap_or|unwrap_or_default|is_some|is_none|as_ref)$"
    r"|swc_ecma_ast::Ident::to_id$|swc_common::SyntaxContext::has_mark$|core::ops::deref::Deref>::deref$|::clone$|core::cmp::PartialEq.*::(eq|ne)$|swc_common::SyntaxContext::empty$|core::default::Default>::default$"
    r"|alloc::vec::Vec::<T, A>::(is_empty|len|pop)$|hstr::global_store::.*::from$|core::hint::must_use$|patch_flags::_::)")
H1_CALLEES = re.compile(r"(alloc::vec::Vec::<T, A>::(push|pop|clear|truncate)$|core::slice::<impl \[T\]>::fill$|DerefMut>::deref_mut$)")
EFFECTFUL_SHARED = re.compile(r"(Handler::|comments::Comments::(add|take|move)|swc_common::Mark::new$|swc_common::Mark::fresh)")


def _reads_index(mb):
    """local -> set of blocks where it is read as an operand / place base"""
    out = {}

    def note(o, bb):
        if isinstance(o, dict):
            if "l" in o and "s" in o:
                out.setdefault(o["l"], set()).add(bb)
                for x in o.get("p") or []:
                    if isinstance(x, dict) and "index" in x:
                        out.setdefault(x["index"], set()).add(bb)
                return
            for v in o.values():
                note(v, bb)
        elif isinstance(o, list):
            for v in o:
                note(v, bb)
    for blk in mb["blocks"]:
        if blk.get("cleanup"):
            continue
        for s in blk["stmts"]:
            if s["k"] == "assign":
                note(s["rv"], blk["i"])
                # projections on the lhs read the base
                if s["lhs"].get("p"):
                    pass
        t = blk.get("term") or {}
        if t.get("k") == "call":
            note(t["args"], blk["i"])
            note(t.get("func"), blk["i"])
        elif t.get("k") == "switch":
            note(t["discr"], blk["i"])
        elif t.get("k") == "assert":
            note(t.get("cond"), blk["i"])
    return out


def influenced_blocks(ctx, mb, field=OPT):
    g = C.cfg_of(ctx, mb)
    tests = [b for b in g.reach if field in {f.strip(".") for f in switch_fields(ctx, mb, b)}]
    infl = set()
    cd = g.control_deps()
    # transitive closure
    changed = True
    ctrl = set(tests)
    for b in g.reach:
        for (a, s) in g.transitive_control_branches(b):
            if a in ctrl:
                infl.add(b)
    return tests, infl


def r12_1(ctx):
    r = Rule("R12.1", "everything control- or data-dependent on options.optimize is hint-only (SlotFlag stack, appended flag/dynamic-prop arguments, the `_` entry)",
             "any other effect under optimize changes what is rendered")
    F = ctx.facts
    n_reads = 0
    seen = {}

    def ob(key, ok, loc, detail):
        c = seen.get(key, 0)
        seen[key] = c + 1
        r.ob(key if c == 0 else "%s #%d" % (key, c + 1), ok, loc, detail)

    pending_closures = []
    for mb in F.mir:
        if mb["crate"] != VISITOR_CRATE or not is_visitor_body(mb):
            continue
        rootb = F.mir_by_path.get((mb["crate"], root_path(mb))) or mb
        if rootb.get("mac"):
            continue
        tests, infl = influenced_blocks(ctx, mb)
        if not tests:
            continue
        r.saw(mb["path"])
        n_reads += len(tests)
        _check_blocks(ctx, mb, infl, ob, pending_closures)
    # closures created under the influence are influenced as a whole
    done = set()
    while pending_closures:
        cpath, crate = pending_closures.pop()
        if (crate, cpath) in done:
            continue
        done.add((crate, cpath))
        cb = F.mir_by_path.get((crate, cpath))
        if cb is None:
            continue
        r.saw(cb["path"])
        g = C.cfg_of(ctx, cb)
        _check_blocks(ctx, cb, set(g.reach), ob, pending_closures, whole=True)
    # optimize passed on as a value to a local function: the callee is analysed with that parameter in the role of the option
    # (a plain copy of the field only; anything computed from it and handed on stays a violation)
    work = []
    for mb in F.mir:
        if mb["crate"] != VISITOR_CRATE or not is_visitor_body(mb):
            continue
        fl = flow_of(ctx, mb)
        for i, t in calls(mb):
            if (mb["crate"], callee_name(t)) in F.mir_by_path:
                for j, a in enumerate(t["args"]):
                    if OPT in {f.strip(".") for f in self_field_of(fl.op_deps(a))} and not (place_of(a) or {}).get("ty", "").startswith(("&mut VueJsx", "&VueJsx")):
                        pty = (place_of(a) or {}).get("ty", "")
                        if pty == "bool":
                            srcs = fl.op_sources(a)
                            pure = bool(srcs) and all(x[0] == "param" and x[1] == 1 and {f.strip(".") for f in self_field_of({x})} == {OPT} for x in srcs)
                            if pure:
                                work.append((mb["crate"], callee_name(t), j + 1, root_path(mb), C.mloc(mb, t)))
                            else:
                                ob("%s passes optimize to %s" % (root_path(mb), callee_name(t).split("::")[-1]), False, C.mloc(mb, t),
                                   "a value computed from the option is handed to another function; its influence there is not followed")
    followed = set()
    while work:
        crate, cpath, pl, frm, loc = work.pop()
        if (crate, cpath, pl) in followed:
            continue
        followed.add((crate, cpath, pl))
        fb = F.mir_by_path.get((crate, cpath))
        if fb is None or pl > fb["arg_count"]:
            ob("%s passes optimize to %s" % (frm, cpath.split("::")[-1]), False, loc, "callee body not available")
            continue
        r.saw(fb["path"])
        g = C.cfg_of(ctx, fb)
        ffl = flow_of(ctx, fb)
        tests = []
        for b in g.reach:
            t = fb["blocks"][b].get("term") or {}
            if t.get("k") == "switch" and any(x[0] == "param" and x[1] == pl for x in ffl.op_deps(t["discr"])):
                tests.append(b)
        infl = {b for b in g.reach for (a_, s_) in g.transitive_control_branches(b) if a_ in tests}
        n_reads += len(tests)
        _check_blocks(ctx, fb, infl, ob, pending_closures)
        # any other use of the parameter: handed on again (followed), or flowing into a value (not hint-only unless typed as a hint)
        for i, t in calls(fb):
            for j, a in enumerate(t["args"]):
                if any(x[0] == "param" and x[1] == pl for x in ffl.op_deps(a)):
                    if (fb["crate"], callee_name(t)) in F.mir_by_path and all(x[0] == "param" and x[1] == pl and not x[2] for x in ffl.op_sources(a)):
                        work.append((fb["crate"], callee_name(t), j + 1, cpath, C.mloc(fb, t)))
                    elif not PURE_CALLEES.search(callee_name(t)):
                        ob("%s: optimize (parameter %d) flows into %s" % (cpath, pl, callee_name(t).split("::")[-1]), False, C.mloc(fb, t),
                           "the option value is used as data by a call that is not on the pure list")
        while pending_closures:
            cp, cr = pending_closures.pop()
            if (cr, cp) in done:
                continue
            done.add((cr, cp))
            cb = F.mir_by_path.get((cr, cp))
            if cb is not None:
                r.saw(cb["path"])
                _check_blocks(ctx, cb, set(C.cfg_of(ctx, cb).reach), ob, pending_closures, whole=True)
    r.ob("reads of options.optimize found", n_reads > 0, "-", "%d branch(es) test options.optimize" % n_reads)
    return r


HINT_STRICT = re.compile(r"^(&mut |&)*(slot_flag::SlotFlag|core::option::Option<slot_flag::SlotFlag>|patch_flags::PatchFlags|core::option::Option<patch_flags::PatchFlags>)$")


def _hint_tests(ctx, mb):
    """blocks that branch on a value of hint type (SlotFlag / PatchFlags, also inside Option): directly (match / if let on it) or on
    the boolean result of one of its pure queries (is_empty, contains, is_some, ==)"""
    fl = flow_of(ctx, mb)
    tys = {l["i"]: l["ty"] for l in mb["locals"]}
    out = []
    for blk in mb["blocks"]:
        t = blk.get("term") or {}
        if t.get("k") != "switch":
            continue
        p = place_of(t["discr"])
        seen = set()
        todo = [p["l"]] if p else []
        hit = False
        while todo and not hit:
            l = todo.pop()
            if l in seen:
                continue
            seen.add(l)
            if HINT_STRICT.match(tys.get(l, "")):
                hit = True
                break
            for kind, bb, d in fl.defs.get(l, []):
                if kind == "stmt":
                    rv = d["rv"]
                    for q in ([rv.get("place")] if rv.get("rk") in ("discr", "ref") else []) + [place_of(rv.get(k)) for k in ("op", "a", "b")]:
                        if q:
                            if HINT_STRICT.match(q.get("ty", "")):
                                hit = True
                            todo.append(q["l"])
                elif tys.get(l, "") == "bool" and PURE_CALLEES.search(callee_name(d)):
                    for a in d["args"]:
                        q = place_of(a)
                        if q:
                            todo.append(q["l"])
        if hit:
            out.append(blk["i"])
    return out


def r12_3(ctx):
    r = Rule("R12.3", "hint values stay hints: whatever is control-dependent on a SlotFlag / PatchFlags value (also wrapped in Option) is hint-only",
             "an `Option<SlotFlag>` that is `None` without optimize turns a branch on it into a branch on the option")
    F = ctx.facts
    seen = {}

    def ob(key, ok, loc, detail):
        key = key.replace("under optimize", "under a hint-value test")
        c = seen.get(key, 0)
        seen[key] = c + 1
        r.ob(key if c == 0 else "%s #%d" % (key, c + 1), ok, loc, detail.replace("options.optimize", "a hint value (which exists / differs only with optimize)"))
    n = 0
    pending = []
    for mb in F.mir:
        if mb["crate"] != VISITOR_CRATE or mb.get("mac"):
            continue
        rootb = F.mir_by_path.get((mb["crate"], root_path(mb))) or mb
        if rootb.get("mac") or not (is_visitor_body(mb) or is_visitor_body(rootb)):
            continue
        tests = _hint_tests(ctx, mb)
        if not tests:
            continue
        g = C.cfg_of(ctx, mb)
        infl = {b for b in g.reach for (a, s_) in g.transitive_control_branches(b) if a in tests}
        n += len(tests)
        r.saw(mb["path"])
        _check_blocks(ctx, mb, infl, ob, pending)
    r.ob("branches on hint-typed values examined", True, "-", "%d branch(es) on SlotFlag / PatchFlags values" % n)
    return r


def _check_blocks(ctx, mb, infl, ob, pending_closures, whole=False):
    fl = flow_of(ctx, mb)
    reads = _reads_index(mb)
    root = root_path(mb)
    tys = {l["i"]: l["ty"] for l in mb["locals"]}
    for b in sorted(infl):
        blk = mb["blocks"][b]
        if blk.get("cleanup"):
            continue
        for s in blk["stmts"]:
            if s["k"] != "assign":
                continue
            lhs = s["lhs"]
            rv = s["rv"]
            if rv.get("rk") == "agg" and rv.get("agg") == "closure":
                pending_closures.append((rv["def"], mb["crate"]))
            projs = lhs.get("p") or []
            if "*" in projs or lhs.get("upvar"):
                # store through a reference: only the SlotFlag stack may be touched
                fields = {first_field(f) for f in self_field_of(fl.place_sources(lhs))}
                if fields and fields <= {"slot_flag_stack"}:
                    ob("%s: store to %s under optimize" % (root, lhs["s"]), True, C.mloc(mb, s), "H1: SlotFlag stack")
                elif HINT_TY.match(lhs.get("ty", "")):
                    ob("%s: store to %s under optimize" % (root, lhs["s"]), True, C.mloc(mb, s), "H2: hint-typed place (%s)" % lhs.get("ty"))
                else:
                    ob("%s: store to %s under optimize" % (root, lhs["s"]), False, C.mloc(mb, s),
                       "a store through a reference (%s: %s) is control-dependent on options.optimize" % (lhs["s"], lhs.get("ty")))
                continue
            l = lhs["l"]
            lty = tys.get(l, "")
            # escaping data influence: the local is read outside the influenced region (or is the return place)
            outside = (reads.get(l, set()) - infl) if not whole else set()
            escapes = bool(outside) or (l == 0 and not whole)
            if not escapes:
                continue
            if HINT_TY.match(lty):
                continue
            # Vec<ExprOrSpread>/Vec<PropOrSpread> being appended to is handled at the push (call) site; a plain
            # (re)definition of such a user local under optimize is not
            ob("%s: %s (%s) is assigned under optimize and used outside" % (root, lhs["s"], _short(lty)), False, C.mloc(mb, s),
               "a value of non-hint type %s defined under the influence of options.optimize reaches code outside that branch%s" % (_short(lty), " (it is the function's result)" if l == 0 else ""))
        t = blk.get("term") or {}
        if t.get("k") == "call":
            name = callee_name(t)
            # result escaping?
            d = t["dest"]
            dl = d["l"]
            dty = tys.get(dl, "")
            mut_args = [(i, a, ty) for i, (a, ty) in enumerate(zip(t["args"], t.get("arg_tys", []))) if ty.startswith("&mut ")]
            key = "%s: %s under optimize" % (root, name.split("::")[-1])
            loc = C.mloc(mb, t)
            handled = False
            if name.startswith("patch_flags::") and mut_args and all(HINT_TY.match(ty[5:]) for _, _, ty in mut_args):
                # the bitflags-generated mutators of PatchFlags: a hint value is updated
                ob(key + " [PatchFlags]", True, loc, "H2: &mut PatchFlags updated by its own generated method")
                continue
            if PURE_CALLEES.search(name) and not mut_args:
                handled = True
            elif (mb["crate"], name) in ctx.facts.mir_by_path or (VISITOR_CRATE, name) in ctx.facts.mir_by_path:
                ob(key, False, loc, "local function %s is called only under options.optimize: its effects (imports, state, diagnostics) differ between the two settings" % name)
                handled = True
            elif EFFECTFUL_SHARED.search(name):
                ob(key, False, loc, "%s acts through a shared reference and is control-dependent on options.optimize" % name)
                handled = True
            for i, a, ty in mut_args:
                handled = True
                pointee = ty[5:]
                if re.match(r"(alloc::vec::Vec<slot_flag::SlotFlag>|\[slot_flag::SlotFlag\])$", pointee):
                    ob(key + " [SlotFlag stack]", True, loc, "H1: &mut %s" % _short(pointee))
                elif name.endswith("Vec::<T, A>::push") and pointee == "alloc::vec::Vec<%sExprOrSpread>" % AST:
                    bad = _slice_bad(mb, fl, t["args"][1], tys)
                    ob(key + " [appended vnode argument]", not bad, loc, "H3: pushed value is built from constants / PatchFlags / the dynamic-prop set only" if not bad else
                       "H3 violated: the appended argument depends on %s" % bad)
                elif name.endswith("Vec::<T, A>::push") and pointee == "alloc::vec::Vec<%sPropOrSpread>" % AST:
                    bad = _slice_bad(mb, fl, t["args"][1], tys)
                    ob(key + " [slot object entry]", not bad, loc, "H4: pushed entry is built from constants / a SlotFlag only (key constant: R12.2)" if not bad else
                       "H4 violated: the pushed entry depends on %s" % bad)
                elif re.match(r"(core::slice::iter::Iter<|core::iter::|indexmap::set::iter::)", pointee):
                    handled = True
                else:
                    ob(key + " [&mut %s]" % _short(pointee), False, loc, "mutating call on %s is control-dependent on options.optimize" % _short(pointee))
            if not handled and not PURE_CALLEES.search(name) and not H1_CALLEES.search(name):
                # unknown callee without &mut: accept only when the result is hint-typed or stays inside
                outside = (reads.get(dl, set()) - infl) if not whole else set()
                if (outside or dl == 0) and not HINT_TY.match(dty) and not WRAP_TY.match(dty):
                    ob(key, False, loc, "result of %s (%s) computed under optimize is used outside the optimize branch" % (name, _short(dty)))
            # result escapes with a non-hint type
            outside = (reads.get(dl, set()) - infl) if not whole else set()
            if (outside or (dl == 0 and not whole)) and not d.get("p") and not HINT_TY.match(dty):
                if not (name.endswith("Vec::<T, A>::push") or name.endswith("::fill") or dty == "()"):
                    ob("%s: result of %s (%s) escapes the optimize branch" % (root, name.split("::")[-1], _short(dty)), False, loc,
                       "a non-hint value computed under options.optimize is used by unconditional code")
        elif t.get("k") == "return" and whole:
            pass
    # whole-closure bodies: their return value must be hint-typed or a wrapped hint
    if whole:
        rty = tys.get(0, "")
        if not (HINT_TY.match(rty) or WRAP_TY.match(rty)):
            ob("%s: closure created under optimize returns %s" % (root, _short(rty)), False, C.mloc(mb, mb), "non-hint result")


def _slice_bad(mb, fl, op, tys, depth=0):
    """backward typed slice of the pushed operand: returns a description of the first non-hint leaf, or None"""
    seen = set()
    st = []
    p = place_of(op)
    if p is None:
        return None
    st.append(p)
    while st:
        pl = st.pop()
        l = pl["l"]
        if pl.get("upvar"):
            ty = pl.get("ty", "")
            if not (HINT_TY.match(ty) or WRAP_TY.match(ty)):
                return "captured %s: %s" % (pl["upvar"], _short(ty))
            continue
        key = (l, tuple(str(x) for x in (pl.get("p") or [])))
        if key in seen:
            continue
        seen.add(key)
        ty = pl.get("ty") or tys.get(l, "")
        if not (HINT_TY.match(ty) or WRAP_TY.match(ty)):
            return "%s: %s" % (pl["s"], _short(ty))
        if pl.get("p"):
            # a projected field is a leaf of its own type (already checked)
            base_defs = fl.defs.get(l, [])
            if any(k == "call" for k, bb, d in base_defs):
                continue
        if 1 <= l <= mb["arg_count"]:
            continue
        if pl.get("p") and l in (mb.get("inlined_params") or ()):
            # a field of an inlined helper's parameter: a leaf of its own type, as a field of a real parameter is
            continue
        for kind, bb, d in fl.defs.get(l, []):
            if kind == "call":
                name = callee_name(d)
                if not (PURE_CALLEES.search(name)):
                    # a value produced by some other call: its type was accepted above; the call itself must be pure-listed
                    if (mb["crate"], name) in {} :
                        pass
                    return "result of %s" % name
                for a in d["args"]:
                    q = place_of(a)
                    if q is not None:
                        st.append(q)
            else:
                rv = d["rv"]
                for q in _rv_places(rv):
                    st.append(q)
    return None


def _rv_places(rv):
    out = []
    rk = rv.get("rk")
    if rk in ("use", "cast", "repeat"):
        p = place_of(rv["op"])
        if p:
            out.append(p)
    elif rk in ("ref", "rawptr", "discr"):
        out.append(rv["place"])
    elif rk == "binop":
        for k in ("a", "b"):
            p = place_of(rv[k])
            if p:
                out.append(p)
    elif rk == "unop":
        p = place_of(rv["a"])
        if p:
            out.append(p)
    elif rk == "agg":
        for o in rv.get("ops", []):
            p = place_of(o)
            if p:
                out.append(p)
    return out


def _short(ty):
    return re.sub(r"(?:[a-z_][A-Za-z0-9_]*::)+", "", ty)


def r12_2(ctx):
    """HIR template of the reserved entry: key `_`, value = SlotFlag as number; SlotFlag values are only passed on / cast"""
    r = Rule("R12.2", "the optimize-only slot entry is `_: <SlotFlag as number>` and SlotFlag values are never branched on",
             "a different key or a branch on the flag changes the slots object")
    n = 0
    for b in ctx.facts.hir:
        if b["crate"] != VISITOR_CRATE or b.get("mac"):
            continue
        for node in walk(b["body"]):
            if node.get("k") == "If" and _is_opt(node["cond"]):
                for x in walk(node["then"]):
                    if x.get("k") == "Struct" and x.get("adt") == AST + "KeyValueProp":
                        fs = {f["name"]: f["e"] for f in x["fields"]}
                        key_ok = False
                        for y in walk(fs.get("key", {})):
                            if y.get("k") == "Lit" and y.get("lit") == "str":
                                key_ok = y["v"] == "_"
                        val_ok = any(z.get("k") == "Cast" and "SlotFlag" in (strip_transparent(z["e"]).get("ty") or z["e"].get("ty") or "") or
                                     (z.get("k") == "Cast" and any("SlotFlag" in (w.get("ty") or "") for w in walk(z))) for z in walk(fs.get("value", {})))
                        n += 1
                        r.saw(b["path"])
                        r.ob("%s: optimize-only entry is `_`: SlotFlag" % b["path"] + ("" if n == 1 else " #%d" % n), key_ok and val_ok, C.mloc(b, x),
                             "key \"_\", value cast from SlotFlag" if key_ok and val_ok else "entry pushed under optimize is not the reserved `_` hint")
    # no switch on a SlotFlag discriminant anywhere
    for mb in ctx.facts.mir:
        if mb["crate"] != VISITOR_CRATE:
            continue
        rootb = ctx.facts.mir_by_path.get((mb["crate"], root_path(mb))) or mb
        if rootb.get("mac"):
            continue
        for blk in mb["blocks"]:
            for s in blk["stmts"]:
                if s["k"] == "assign" and s["rv"].get("rk") == "discr" and s["rv"].get("adt") == "slot_flag::SlotFlag":
                    # a discriminant read used by a cast (`as u8`) is fine; a switch on it is not
                    dl = s["lhs"]["l"]
                    t = blk.get("term") or {}
                    if t.get("k") == "switch" and (place_of(t["discr"]) or {}).get("l") == dl:
                        r.ob("%s branches on a SlotFlag" % root_path(mb), False, C.mloc(mb, t), "control flow depends on a slot flag value")
    r.ob("no branch on SlotFlag values", True, "-", "scanned all discriminant reads of slot_flag::SlotFlag")
    return r


def _is_opt(cond):
    for c in _conj(cond):
        if field_path(strip_transparent(c)) == "self.options.optimize":
            return True
    return False


def _conj(e):
    from .hirflow import conjuncts
    return conjuncts(e)


def rules(ctx):
    return [r12_1, r12_2, r12_3]


EXPLANATION = (
    "Sufficient condition for C12. A5 on MIR: every block transitively control-dependent on a branch whose condition data-depends on "
    "options.optimize (including hoisted reads and closure upvars), and every closure created in such a block, is examined. Allowed there: "
    "H1 mutating calls whose receiver is the Vec<SlotFlag> stack; H2 assignments to hint-typed places (SlotFlag, Option<SlotFlag>, PatchFlags, "
    "bool); H3 Vec<ExprOrSpread>::push whose pushed value's backward slice contains only constants, PatchFlags, the dynamic-prop set and AST "
    "wrappers; H4 Vec<PropOrSpread>::push of an entry built from constants/SlotFlag (R12.2: key is `_`); pure listed callees. Reported: calls "
    "to local functions, shared-reference effects (diagnostics, comments, marks), stores through references, and any non-hint value defined "
    "under the influence that is read outside it or returned. Code not influenced is identical for both settings, so only trailing "
    "arguments / the reserved key can differ."
)
ASSUMPTIONS = ["the pure-callee list (Box::new, Into, PatchFlags::bits, IndexSet iteration, map/collect, has_mark, ...) has no effect other than its result",
               "Vue ignores the extra trailing arguments and the `_` key except as hints"]
TRUSTED = ["rustc nightly MIR", "std/indexmap purity of the listed callees"]
LEVEL = "proof"
LEVEL_TEXT = ("All obligations of a sufficient condition are discharged on the resolved program: every effect control- or data-dependent on "
              "options.optimize is of a hint-only kind (type-directed backward slices on MIR). With the stated purity assumptions this implies "
              "the two outputs differ only in trailing hint arguments and the `_` entry.")
LEVEL_NOTE = "Trusted: rustc MIR; purity of the listed std/indexmap/swc callees; Vue treating patch flags / dynamic props / `_` as hints."
TECHNIQUE = "control + data dependence (A5) on MIR with type-directed backward slices; HIR template check of the `_` entry"
