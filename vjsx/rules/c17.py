"""C17 — inferred runtime prop types accept every value of the declared TS type (type -> constructor table)."""
import re
from ..facts import AST, VISITOR_CRATE, walk, strip_transparent, field_path, const_str, local_of
from ..engine import Rule
from . import common as C
from .hirflow import HirIndex
from .hirtext import expr_str, pat_str
from .symprov import SymProv

KEYWORD_TABLE = {"TsStringKeyword": {"String"}, "TsNumberKeyword": {"Number"}, "TsBooleanKeyword": {"Boolean"}, "TsObjectKeyword": {"Object"},
                 "TsNullKeyword": {"null"}, "TsBigIntKeyword": {"BigInt"}, "TsSymbolKeyword": {"Symbol"}, "_": {"null"},
                 "TsAnyKeyword": {"null"}, "TsUnknownKeyword": {"null"}, "TsUndefinedKeyword": {"null"}, "TsVoidKeyword": {"null"}, "TsNeverKeyword": {"null"},
                 "TsIntrinsicKeyword": {"null"}}
LIT_TABLE = {"Str": {"String"}, "Tpl": {"String"}, "Bool": {"Boolean"}, "Number": {"Number"}, "BigInt": {"BigInt"}}
NODE_TABLE = {"TsFnOrConstructorType": {"Function"}, "TsArrayType": {"Array"}, "TsTupleType": {"Array"}, "_": {"Object"}}
NAME_SELF = {"Array", "Function", "Object", "Set", "Map", "WeakSet", "WeakMap", "Date", "Promise", "Error", "RegExp"}
NAME_TABLE = {}
for n_ in NAME_SELF:
    NAME_TABLE[n_] = {"<name>"}
for n_ in ("Partial", "Required", "Readonly", "Record", "Pick", "Omit", "InstanceType"):
    NAME_TABLE[n_] = {"Object"}
for n_ in ("Uppercase", "Lowercase", "Capitalize", "Uncapitalize"):
    NAME_TABLE[n_] = {"String"}
for n_ in ("Parameters", "ConstructorParameters"):
    NAME_TABLE[n_] = {"Array"}
NAME_TABLE["_"] = {"Object"}
RECURSIVE_NAMES = {"NonNullable": "first", "Exclude": "first", "OmitThisParameter": "first", "Extract": "get(1)"}
RECURSIVE_NODES = {"TsParenthesizedType", "TsOptionalType", "TsUnionType", "TsIntersectionType", "TsIndexedAccessType", "TsTypeRef", "TsKeywordType", "TsLitType", "TsTypeLit"}


def _alts(pat):
    """alternative heads of an arm pattern: variant names or string literals or '_'"""
    k = pat.get("k")
    if k == "POr":
        out = []
        for p in pat["pats"]:
            out += _alts(p)
        return out
    if k in ("PRef", "PBox", "PDeref"):
        return _alts(pat["p"])
    if k in ("PTupleStruct", "PStruct"):
        # descend through wrapper enums (TsUnionOrIntersectionType(TsUnionType(..)))
        inner = []
        for p in pat.get("pats", []):
            if p.get("k") in ("PTupleStruct", "PStruct", "POr") and any((x.get("adt") or "").endswith("TsUnionOrIntersectionType") or (x.get("adt") or "").endswith("TsFnOrConstructorType") for x in walk(p) if x.get("k") in ("PTupleStruct", "PStruct")):
                inner += _alts(p)
        if (pat.get("adt") or "").endswith("TsUnionOrIntersectionType") and pat.get("variant"):
            return [pat["variant"]]
        return inner or [pat.get("variant") or "?"]
    if k == "PPath":
        return [pat["res"].get("variant") or (pat["res"].get("path") or "?").split("::")[-1]]
    if k == "PLit":
        return [str(pat.get("v"))]
    if k in ("PWild", "PBind"):
        return ["_"]
    return ["?"]


def _direct_inserts(sp, hb, body):
    """atoms inserted into the accumulator in `body`, not looking into nested matches; plus flags"""
    out = set()
    recursion = False
    stack = [body]
    while stack:
        n = stack.pop()
        if n.get("k") == "Match":
            # a `for` loop is a match in the HIR; its body belongs to this arm
            from .c16 import _is_for_loop
            if _is_for_loop(n):
                for lp in walk(n["arms"][0]["body"]):
                    if lp.get("k") == "Match" and any(pat_str(a_["pat"]).startswith("Some(") for a_ in lp.get("arms", [])):
                        stack.extend(a_["body"] for a_ in lp["arms"] if pat_str(a_["pat"]).startswith("Some("))
                        break
            continue
        if n.get("k") == "MethodCall" and n["method"] == "insert" and "IndexSet" in (strip_transparent(n["recv"]).get("ty") or "") and n["args"]:
            a = strip_transparent(n["args"][0])
            if a.get("k") == "Path" and a["res"].get("variant") == "None":
                out.add("null")
            elif a.get("k") == "Ctor" and a.get("variant") == "Some" and a["args"]:
                inner = a["args"][0]
                lv = sp.prov(hb, inner)
                for kind, d in lv:
                    if kind == "const":
                        out.add(d)
                    elif kind == "input_ident":
                        out.add("<name>")
                    else:
                        out.add("?%s" % kind)
            else:
                out.add("?")
            continue
        if n.get("k") == "MethodCall" and n["method"] == "extend":
            a0 = strip_transparent(n["args"][0]) if n.get("args") else {}
            if "IndexSet" in (strip_transparent(n["recv"]).get("ty") or "") and a0.get("k") == "MethodCall" and a0.get("method") == "map" and a0.get("args") \
                    and strip_transparent(a0["args"][0]).get("k") == "Closure":
                # `types.extend(xs.iter().map(|x| Some(atom)))`: one insert per element, the closure's value
                from .c02 import _leaves
                for leaf in _leaves(strip_transparent(a0["args"][0])["body"]):
                    lf = strip_transparent(leaf)
                    if lf.get("k") == "Path" and lf["res"].get("variant") == "None":
                        out.add("null")
                    elif lf.get("k") == "Ctor" and lf.get("variant") == "Some" and lf["args"]:
                        for kind, d in sp.prov(hb, lf["args"][0]):
                            out.add(d if kind == "const" else ("<name>" if kind == "input_ident" else "?%s" % kind))
                    else:
                        out.add("?")
                continue
            recursion = True
        from ..facts import children
        stack.extend(children(n))
    return out, recursion


def r17_1(ctx):
    r = Rule("R17.1", "type -> constructor table of the runtime type inferrer equals the documented one",
             "a wrong entry makes Vue's validator reject a value that inhabits the declared type")
    rt = C.role_or_fail(ctx, r, "runtime_type_inferrer")
    if not rt:
        return r
    r.saw(rt["path"])
    sp = SymProv(ctx)
    n_tables = 0
    for m in walk(rt["body"]):
        if m.get("k") != "Match":
            continue
        sty = (strip_transparent(m["scrut"]).get("ty") or m["scrut"].get("ty") or "")
        if sty.endswith("TsKeywordTypeKind"):
            name, table = "keyword", KEYWORD_TABLE
        elif sty.endswith("TsLit"):
            name, table = "literal type", LIT_TABLE
        elif sty.endswith("TsType"):
            name, table = "type node", NODE_TABLE
        elif sty in ("str", "&str") or sty.endswith("Atom"):
            name, table = "type reference name", NAME_TABLE
        else:
            continue
        n_tables += 1
        # the table may also be the *argument* of the insert: `types.insert(match kind { A => Some(x), .. })` or `insert(Some(match ..))`
        wrapped = None
        idx_rt = idx_rt if "idx_rt" in dir() else HirIndex(rt)
        child = m
        for p_ in idx_rt.parents(m):
            if p_.get("k") == "Ctor" and p_.get("variant") == "Some":
                wrapped = "some"
            elif p_.get("k") == "MethodCall" and p_["method"] == "insert" and "IndexSet" in (strip_transparent(p_["recv"]).get("ty") or "") and any(child is strip_transparent(x) or child is x for x in p_["args"]):
                wrapped = wrapped or "value"
                break
            elif p_.get("k") not in ("Block", "Ref", "Unary", "Cast"):
                wrapped = None
                break
            child = p_
        else:
            wrapped = None
        if not wrapped:
            # ... or the value of a local that is used once, as that argument: `let c = match kind { .. }; types.insert(c)`
            for bid, bnd in idx_rt.binding.items():
                init = bnd.get("init")
                if bnd.get("kind") == "let" and not bnd.get("path") and init is not None and (init is m or strip_transparent(init) is m):
                    uses = [x for x in idx_rt.nodes if x.get("k") == "Path" and (x.get("res") or {}).get("r") == "local" and x["res"].get("id") == bid]
                    if len(uses) == 1:
                        child, w = uses[0], None
                        for p_ in idx_rt.parents(uses[0]):
                            if p_.get("k") == "Ctor" and p_.get("variant") == "Some":
                                w = "some"
                            elif p_.get("k") == "MethodCall" and p_["method"] == "insert" and "IndexSet" in (strip_transparent(p_["recv"]).get("ty") or "") and any(child is strip_transparent(x) or child is x for x in p_["args"]):
                                wrapped = w or "value"
                                break
                            elif p_.get("k") not in ("Block", "Ref", "Unary", "Cast"):
                                break
                            child = p_
        for a in m["arms"]:
            if wrapped:
                got, rec = set(), False
                from .c02 import _leaves
                for leaf in _leaves(a["body"]):
                    lf = strip_transparent(leaf)
                    if lf.get("k") == "Path" and lf["res"].get("variant") == "None":
                        got.add("null")
                        continue
                    if wrapped == "value" and lf.get("k") == "Ctor" and lf.get("variant") == "Some" and lf["args"]:
                        lf = lf["args"][0]
                    for kind, d in sp.prov(rt, lf):
                        got.add(d if kind == "const" else ("<name>" if kind == "input_ident" else "?%s" % kind))
            else:
                got, rec = _direct_inserts(sp, rt, a["body"])
            for alt in _alts(a["pat"]):
                key = "%s %s" % (name, alt)
                if name == "type node" and alt in RECURSIVE_NODES:
                    # these arms delegate (nested table / recursion); their direct inserts are checked by the nested tables
                    if alt == "TsTypeLit":
                        ok = got == {"Function", "Object"}
                        # which members make it a Function: call and construct signatures, both
                        tested = {x.get("variant") for x in walk(a["body"]) if x.get("k") in ("PTupleStruct", "PStruct", "PPath") and (x.get("adt") or (x.get("res") or {}).get("adt") or "") == AST + "TsTypeElement"}
                        for x in walk(a["body"]):
                            if x.get("k") == "MethodCall" and x.get("method") in ("is_ts_call_signature_decl", "is_ts_construct_signature_decl"):
                                tested.add({"is_ts_call_signature_decl": "TsCallSignatureDecl", "is_ts_construct_signature_decl": "TsConstructSignatureDecl"}[x["method"]])
                        both = {"TsCallSignatureDecl", "TsConstructSignatureDecl"} <= tested
                        r.ob(key + " -> Function (call/construct signature) | Object", ok and both, C.mloc(rt, a),
                             "direct inserts %s; member kinds tested %s" % (sorted(got), sorted(v for v in tested if v)) if ok and both else
                             ("direct inserts %s" % sorted(got) if not ok else "only %s make the type a Function: a type with a %s is inferred as Object" % (
                                 sorted(v for v in tested if v), sorted({"TsCallSignatureDecl", "TsConstructSignatureDecl"} - tested))))
                    elif alt in ("TsParenthesizedType", "TsOptionalType", "TsUnionType", "TsIntersectionType", "TsIndexedAccessType"):
                        txt_a = expr_str(a["body"])
                        narrowed = [w for w in (".filter(", ".retain(", ".contains(", ".intersection(", ".difference(") if w in txt_a]
                        ok_u = rec and not got and not narrowed
                        r.ob(key + " -> union of its parts", ok_u, C.mloc(rt, a),
                             "extends the accumulator with the recursive result" if ok_u else
                             ("the parts' types are filtered (%s) before they are added: a constructor some part allows is lost" % narrowed[0] if narrowed else "inserts %s / recursion: %s" % (sorted(got), rec)))
                    continue
                if name == "type reference name" and alt in RECURSIVE_NAMES:
                    txt = expr_str(a["body"])
                    which = RECURSIVE_NAMES[alt]
                    spell = ["params.%s" % which.replace("first", "first()")] + (["params.get(0)"] if which == "first" else [])
                    ok = rec and any(sp_ in txt for sp_ in spell) and got <= {"Object"}
                    if alt == "NonNullable":
                        ok = ok and "is_some()" in txt and ".filter(" in txt
                    else:
                        # the argument's types are taken over whole: nothing filters or intersects them with another set
                        narrowing = [w for w in (".filter(", ".retain(", ".contains(", ".intersection(", ".difference(", ".remove(", ".swap_remove(", ".shift_remove(") if w in txt]
                        if narrowing:
                            ok = False
                            txt = "the argument's types are narrowed (%s): a constructor the type admits is lost — %s" % (narrowing[0], txt)
                    r.ob(key + " -> its %s type argument%s" % ("first" if which == "first" else "second", " without null" if alt == "NonNullable" else ""), ok, C.mloc(rt, a), txt[:160])
                    continue
                want = table.get(alt)
                if want is not None and a.get("guard") is not None and name in ("type reference name", "keyword", "literal type"):
                    # a guarded entry applies to some uses of the name only; the others fall through to the default
                    r.ob(key + " -> " + "/".join(sorted(want)), False, C.mloc(rt, a),
                         "the entry is guarded by `%s`: where the guard fails this name falls through to the default arm" % expr_str(a["guard"])[:90])
                    continue
                if want is None:
                    r.ob(key, None, C.mloc(rt, a), "no documented entry for this arm; inserts %s (not decided)" % sorted(got))
                else:
                    r.ob(key + " -> " + "/".join(sorted(want)), got == want, C.mloc(rt, a), "inserts %s" % sorted(got) if got == want else "inserts %s, documented %s" % (sorted(got), sorted(want)))
    r.ob("tables found", n_tables >= 4, "-", "%d match table(s) in the inferrer" % n_tables)
    # every documented built-in name has an arm
    return r


def r17_2(ctx):
    r = Rule("R17.2", "declarations of the module shadow the built-in name table (alias, then interface, then names)",
             "a local `type Date = ...` must not be inferred as the global Date")
    rt = C.role_or_fail(ctx, r, "runtime_type_inferrer")
    if not rt:
        return r
    r.saw(rt["path"])
    idx = HirIndex(rt)
    for m in idx.nodes:
        if m.get("k") != "Match":
            continue
        sty = (strip_transparent(m["scrut"]).get("ty") or m["scrut"].get("ty") or "")
        if (sty in ("str", "&str") or sty.endswith("Atom")) and any(pat_str(a["pat"]).startswith("'") for a in m["arms"]):
            kt = idx.known_true(m)
            negs = [expr_str(f[1]) for f in kt if isinstance(f, tuple)]
            has_alias = any("type_aliases.get(" in n for n in negs)
            has_iface = any("interfaces.get(" in n for n in negs)
            others = [n_ for n_ in negs if "type_aliases.get(" not in n_ and "interfaces.get(" not in n_]
            pos = [expr_str(f) for f in kt if not isinstance(f, tuple) and f.get("k") != "LetExpr"]
            r.ob("the built-in name table is reached whenever both lookups fail (no further condition in front of it)", not others and not pos, C.mloc(rt, m),
                 "only the two lookups precede it" if not others and not pos else "also conditioned on %s: some references never reach the table and fall to the default" % ((others + pos)[0][:80]))
            r.ob("the built-in name table is consulted only after both lookups failed", has_alias and has_iface, C.mloc(rt, m),
                 "else-branch of `type_aliases.get` and `interfaces.get`" if has_alias and has_iface else "reached without: %s" % ", ".join(x for x, ok in (("alias lookup", has_alias), ("interface lookup", has_iface)) if not ok))
    return r


def r17_3(ctx):
    r = Rule("R17.3", "accumulators preserve insertion order (Boolean/String order is significant for Vue's prop casting)", "an unordered set makes [Boolean, String] vs [String, Boolean] arbitrary")
    rt = C.role(ctx, "runtime_type_inferrer")
    if rt:
        r.ob("runtime type set is an IndexSet", rt["output"].startswith("indexmap::set::IndexSet<"), C.mloc(rt, rt), rt["output"][:80])
    for it in ctx.facts.items:
        if it["crate"] == VISITOR_CRATE and it.get("kind") == "struct" and it["path"].endswith("PropIr"):
            for f in it["variants"][0]["fields"]:
                if f["name"] == "types":
                    r.ob("PropIr.types is an IndexSet", f["ty"].startswith("indexmap::set::IndexSet<"), "-", f["ty"][:80])
    pb = C.role(ctx, "props_builder")
    if pb:
        ok = any((n.get("ty") or "").startswith("indexmap::map::IndexMap<") for n in walk(pb["body"]) if n.get("k") in ("Call", "MethodCall"))
        r.ob("props are accumulated in an IndexMap", ok, C.mloc(pb, pb), "IndexMap accumulator" if ok else "no IndexMap found in the props builder")
    return r


def r17_5(ctx):
    r = Rule("R17.5", "indexing an array type: the element type is taken for the `number` keyword and for numeric literal indices alike (`T[][number]`, `T[][0]`)",
             "`Ids[0]` resolving to nothing gives `type: []`, which rejects every value")
    ia = C.role_or_fail(ctx, r, "indexed_access_resolver")
    if not ia:
        return r
    r.saw(ia["path"])
    found = False
    for a in walk(ia["body"]):
        if a.get("k") == "Arm" and pat_str(a["pat"]).startswith("TsArrayType("):
            found = True
            forms = set()
            for x in walk(a):
                if x.get("k") in ("PPath", "PTupleStruct", "PStruct"):
                    v = x.get("variant") or (x.get("res") or {}).get("variant")
                    if v:
                        forms.add(v)
            ok = "TsNumberKeyword" in forms and "Number" in forms
            r.ob("array element access accepts `number` and numeric literals", ok, C.mloc(ia, a),
                 "index forms %s" % sorted(f for f in forms if f in ("TsNumberKeyword", "Number", "TsLitType", "TsKeywordType")) if ok else
                 "index forms handled: %s — %s missing" % (sorted(f for f in forms if f.startswith("Ts") or f == "Number"), [f for f in ("TsNumberKeyword", "Number") if f not in forms]))
    # `Array<T>[..]`: the generic spelling must not be narrower than `T[][..]`
    for x in walk(ia["body"]):
        if x.get("k") == "If":
            ct = strip_transparent(x["cond"])
            consts = [const_str(y) for y in walk(ct) if const_str(y)]
            if "Array" in consts:
                forms = {y.get("variant") or (y.get("res") or {}).get("variant") for y in walk(ct) if y.get("k") in ("PPath", "PTupleStruct", "PStruct")}
                narrowed = "TsNumberKeyword" in forms and "Number" not in forms
                r.ob("`Array<T>[i]` is not restricted to the `number` keyword", not narrowed, C.mloc(ia, x),
                     "no index-form restriction beside the name test" if not forms else ("index forms %s" % sorted(f for f in forms if f) if not narrowed else
                     "the `Array` test is conjoined with an index test that accepts the `number` keyword only: `Array<string>[0]` resolves to nothing"))
    if not found:
        r.ob("array element access accepts `number` and numeric literals", None, C.mloc(ia, ia), "no TsArrayType arm in the indexed-access resolver: not decided")
    return r


def r17_4(ctx):
    r = Rule("R17.4", "members with the same name are merged whatever their source position: no hash / equality lookup keyed by PropName (its derived Eq and Hash include the span)",
             "`{format: string} | {format(v: Date): string}` emits the key twice and the later entry wins, so one of the two member types is rejected at run time")
    from ..cfg import calls, callee_name
    LOOKUP = re.compile(r"(IndexMap::<K, V, S>|HashMap::<K, V, S, A>|BTreeMap::<K, V, A>)::(entry|get|get_mut|get_full|get_index_of|contains_key|remove|swap_remove|shift_remove)$")
    n = 0
    for mb in ctx.facts.mir:
        if mb["crate"] != VISITOR_CRATE or mb.get("mac"):
            continue
        for i, t in calls(mb):
            name = callee_name(t)
            full = t.get("callee_full", "")
            if re.search(r"(IndexMap|HashMap|BTreeMap)::<%sPropName," % re.escape(AST), full):
                n += 1
                r.saw(mb["path"])
                if LOOKUP.search(name):
                    r.ob("%s: %s on a map keyed by PropName" % (mb["path"], name.split("::")[-1]), False, C.mloc(mb, t),
                         "`%s` finds an existing member only if its key has the same span: same-named members declared in different places are not merged" % name.split("::")[-1])
    r.ob("maps keyed by PropName are only inserted into / iterated; look-ups compare with eq_ignore_span", True, "-", "%d call(s) on such maps examined" % n)
    return r


def r17_6(ctx):
    r = Rule("R17.6", "the set of inferred runtime types only grows: it is inserted into / extended, and emptied only by the `pop` that emits a one-element set",
             "a `retain` / `remove` / `clear` on the set after inference drops a constructor the type does admit (`boolean | null` -> Boolean), so Vue's validation rejects a legal value")
    from ..cfg import calls, callee_name
    from .influence import flow_of
    GROW = re.compile(r"(IndexSet::<T, S>::(insert|insert_full|reserve|with_capacity)|Extend<T>>::extend|IndexSet::<T, S>::extend)$")
    n = 0
    for mb in ctx.facts.mir:
        if mb["crate"] != VISITOR_CRATE or mb.get("mac"):
            continue
        g = None
        for i, t in calls(mb):
            for ty in t.get("arg_tys", []):
                if ty.startswith("&mut ") and "IndexSet<core::option::Option<swc_atoms::Atom>" in ty:
                    name = callee_name(t)
                    n += 1
                    r.saw(mb["path"])
                    if GROW.search(name):
                        continue
                    key = "%s: %s on the runtime-type set" % (C.root_name(mb) if hasattr(C, "root_name") else (mb.get("parent") or mb["path"]), name.split("::")[-1])
                    if name.endswith("IndexSet::<T, S>::pop"):
                        g = g or C.cfg_of(ctx, mb)
                        fl = flow_of(ctx, mb)
                        guarded = False
                        for (a, s_) in g.transitive_control_branches(i):
                            tt = mb["blocks"][a].get("term") or {}
                            if tt.get("k") == "switch" and any(d[0] == "call" and d[1].endswith("IndexSet::<T, S>::len") for d in fl.op_deps(tt["discr"])):
                                guarded = True
                        r.ob(key, guarded, C.mloc(mb, t), "emission of a one-element set (under a test of its length)" if guarded else
                             "`pop` on the type set that is not under a test of its length")
                    else:
                        r.ob(key, False, C.mloc(mb, t), "`%s` removes inferred types from the set" % name.split("::")[-1])
    r.ob("mutating calls on the runtime-type set examined", n > 0, "-", "%d call(s); all but the listed ones insert / extend" % n)
    return r


def rules(ctx):
    from . import c16
    return [__import__('vjsx.rules.c10', fromlist=['x']).field_ratchet('inferred runtime types must not depend on what was resolved before'), c16.r16_9, r17_1, r17_2, r17_3, r17_4, r17_5, r17_6, c16.r16_2, c16.r16_12,
            __import__('vjsx.engine', fromlist=['only']).only(c16.r16_1, lambda k: k.startswith('indexed access'), 'the type of `T[K]` is inferred from the member the indexed access selects: the interface and type-literal member tables must select alike (a method member is a Function)')]


EXPLANATION = (
    "R17.1 (A6): the four match tables of the runtime-type inferrer (TsType node kind, keyword kind, literal kind, type-reference name) are "
    "extracted from the typed HIR, `atom!` constants resolved through the MIR of their static initialisers, and compared entry by entry with "
    "the table in the property statement; recursive arms must extend the accumulator with the recursive result (NonNullable filtering None, "
    "Extract using the second argument). R17.2: the name table sits in the else-branch of both the alias and the interface lookup. R17.3: "
    "insertion-ordered accumulators. R16.2 (shared): registries keyed by (name, scope)."
    ' R17.6: the runtime-type set only grows (insert / extend); the single `pop` is the emission of a one-element set under a length test.'
)
ASSUMPTIONS = ["Vue's runtime validator semantics for the listed constructors", "inhabitants of TS types are not enumerated"]
TRUSTED = ["rustc nightly HIR/MIR"]
LEVEL = "other"
LEVEL_TEXT = "Exact extraction and comparison of the type->constructor tables from the resolved program. One pinned deviation (bigint literal -> Number) is a recorded known finding."
LEVEL_NOTE = "Trusted: rustc HIR/MIR. Not decided: that the table is complete for every TS construct (unknown arms are reported as not decided)."
TECHNIQUE = "table extraction (A6) from typed HIR with constant resolution through MIR"
