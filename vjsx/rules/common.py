"""Helpers shared by the rules: labels, call graph, role resolution, macro invocations."""
import re
from ..facts import AST, VISITOR_CRATE, PLUGIN_CRATE, walk, walk_with_parents, children, strip_transparent, const_str, loc
from ..cfg import CFG, calls, callee_name, place_of, op_local, op_const

VISITOR_TY = "VueJsxTransformVisitor<C>"


def label(body):
    """stable, line-free label of a body: crate-less path, closures as `{closure#k}`"""
    return body["path"]


def mloc(body, node):
    sp = node.get("sp") or body.get("sp") or [0, 0, 0, 0]
    return "%s:%d" % (node.get("file") or body.get("file", "?"), sp[0])


def cfg_of(ctx, body):
    key = ("cfg", body["crate"], body["path"])
    if key not in ctx.cache:
        ctx.cache[key] = CFG(body)
    return ctx.cache[key]


# ---- call graph ------------------------------------------------------------------
def call_graph(ctx):
    """edges between local bodies (both crates). closures are attached to their creator.
    Returns (nodes: dict path->body, edges: dict path->set(path))."""
    if "callgraph" in ctx.cache:
        return ctx.cache["callgraph"]
    F = ctx.facts
    nodes = {}
    for b in F.mir:
        nodes[(b["crate"], b["path"])] = b
    visit_methods = [k for k, b in nodes.items() if "::visit_mut_" in k[1] and b["dk"] == "AssocFn" and "VisitMut" in k[1]]
    edges = {k: set() for k in nodes}
    for k, b in nodes.items():
        for blk in b["blocks"]:
            for s in blk["stmts"]:
                if s["k"] == "assign" and s["rv"].get("rk") == "agg" and s["rv"].get("agg") == "closure":
                    ck = (b["crate"], s["rv"]["def"])
                    if ck in nodes:
                        edges[k].add(ck)
            t = blk.get("term") or {}
            if t.get("k") == "call":
                name = t.get("resolved") or t.get("callee") or ""
                if (b["crate"], name) in nodes:
                    edges[k].add((b["crate"], name))
                elif (VISITOR_CRATE, _strip_crate(name)) in nodes:
                    edges[k].add((VISITOR_CRATE, _strip_crate(name)))
                if name.endswith("visit_mut_children_with") or name.endswith("visit_mut_with"):
                    # re-entrancy through swc_ecma_visit
                    for vm in visit_methods:
                        edges[k].add(vm)
    ctx.cache["callgraph"] = (nodes, edges)
    return nodes, edges


def _strip_crate(name):
    for c in (VISITOR_CRATE + "::", PLUGIN_CRATE + "::"):
        if name.startswith(c):
            return name[len(c):]
    return name


def reachable_from(ctx, roots):
    nodes, edges = call_graph(ctx)
    seen = set()
    st = [r for r in roots if r in nodes]
    while st:
        x = st.pop()
        if x in seen:
            continue
        seen.add(x)
        st.extend(edges.get(x, ()))
    return seen


def sccs(nodes, edges):
    """Tarjan; returns list of lists"""
    index = {}
    low = {}
    onstack = set()
    stack = []
    out = []
    counter = [0]
    import sys
    sys.setrecursionlimit(10000)

    def strong(v):
        index[v] = low[v] = counter[0]
        counter[0] += 1
        stack.append(v)
        onstack.add(v)
        for w in edges.get(v, ()):
            if w not in index:
                strong(w)
                low[v] = min(low[v], low[w])
            elif w in onstack:
                low[v] = min(low[v], index[w])
        if low[v] == index[v]:
            comp = []
            while True:
                w = stack.pop()
                onstack.discard(w)
                comp.append(w)
                if w == v:
                    break
            out.append(comp)
    for v in nodes:
        if v not in index:
            strong(v)
    return out


# ---- role resolution (by signature / state touched, never by helper name) ---------
def visitor_methods(ctx):
    """HIR bodies that are methods of the VisitMut impl for the visitor"""
    return [b for b in ctx.facts.hir if b["crate"] == VISITOR_CRATE and b.get("impl_trait", "").endswith("VisitMut")
            and b.get("impl_self", "").startswith("VueJsxTransformVisitor")]


def visitor_inherent(ctx):
    return [b for b in ctx.facts.hir if b["crate"] == VISITOR_CRATE and not b.get("impl_trait")
            and b.get("impl_self", "").startswith("VueJsxTransformVisitor") and not b.get("mac")]


def fns_by_sig(ctx, inputs_pred, output_pred, crate=VISITOR_CRATE):
    out = []
    for b in ctx.facts.hir:
        if b["crate"] != crate or b.get("mac"):
            continue
        if inputs_pred(b["inputs"]) and output_pred(b["output"]):
            out.append(b)
    return out


def _mentions_line_break(b):
    """the text cleaner is the &str -> String function that deals with line breaks (loop or fold, whichever way it is written)"""
    for n in walk(b["body"]):
        if n.get("k") == "Lit" and n.get("lit") in ("char", "str") and isinstance(n.get("v"), str) and ("\n" in n["v"] or "\r" in n["v"]):
            return True
        if n.get("k") == "MethodCall" and n["method"] == "lines":
            return True
    return False


def role(ctx, name):
    """Resolve a role to exactly one HIR body or None. Roles are defined by type signature."""
    key = ("role", name)
    if key in ctx.cache:
        return ctx.cache[key]
    A = AST
    cands = []
    if name == "element_builder":
        cands = fns_by_sig(ctx, lambda i: len(i) == 2 and i[1] == "&%sJSXElement" % A, lambda o: o == A + "Expr")
    elif name == "fragment_builder":
        cands = fns_by_sig(ctx, lambda i: len(i) == 2 and i[1] == "&%sJSXFragment" % A, lambda o: o == A + "Expr")
    elif name == "children_builder":
        cands = fns_by_sig(ctx, lambda i: len(i) >= 2 and i[1] == "&[%sJSXElementChild]" % A, lambda o: o == A + "Expr")
    elif name == "attr_fold":
        cands = fns_by_sig(ctx, lambda i: len(i) >= 2 and re.sub(r"'\w+ ", "", i[1]) == "&[%sJSXAttrOrSpread]" % A, lambda o: True)
    elif name == "tag_fn":
        cands = fns_by_sig(ctx, lambda i: len(i) == 2 and i[1] == "&%sJSXElementName" % A, lambda o: o == A + "Expr")
    elif name == "component_pred":
        cands = fns_by_sig(ctx, lambda i: len(i) == 2 and i[1] == "&%sJSXElementName" % A, lambda o: o == "bool")
    elif name == "directive_parser":
        cands = fns_by_sig(ctx, lambda i: len(i) == 2 and i[0] == "&%sJSXAttr" % A and i[1] == "bool", lambda o: o.endswith("Directive"))
    elif name == "directive_pred":
        cands = fns_by_sig(ctx, lambda i: i == ["&%sJSXAttr" % A], lambda o: o == "bool")
    elif name == "import_fn":
        cands = fns_by_sig(ctx, lambda i: len(i) == 2 and i[0].startswith("&mut VueJsxTransformVisitor") and i[1] == "&'static str", lambda o: o == A + "Ident")
    elif name == "pragma_fn":
        cands = [b for b in fns_by_sig(ctx, lambda i: len(i) == 1 and i[0].startswith("&mut VueJsxTransformVisitor"), lambda o: o == A + "Ident")
                 if any(n.get("k") == "Field" and n.get("name") == "pragma" for n in walk(b["body"]))]
    elif name == "injector":
        cands = fns_by_sig(ctx, lambda i: len(i) >= 1 and i[0] == "&mut %sCallExpr" % A, lambda o: o == "()")
    elif name == "wrapper":
        cands = fns_by_sig(ctx, lambda i: len(i) == 4 and "alloc::vec::Vec<core::option::Option<%sExprOrSpread>>" % A in i and any("SlotFlag" in x for x in i), lambda o: o == A + "Expr")
    elif name == "dc_pred":
        cands = fns_by_sig(ctx, lambda i: len(i) == 2 and i[1] == "&%sCallExpr" % A, lambda o: o == "bool")
    elif name == "text_cleaner":
        cands = fns_by_sig(ctx, lambda i: i == ["&str"], lambda o: o == "alloc::string::String")
        cands = [b for b in cands if _mentions_line_break(b)]
    elif name == "dedupe":
        cands = fns_by_sig(ctx, lambda i: i == ["alloc::vec::Vec<%sPropOrSpread>" % A], lambda o: o == "alloc::vec::Vec<%sPropOrSpread>" % A)
    elif name == "is_constant":
        cands = fns_by_sig(ctx, lambda i: i == ["&%sExpr" % A], lambda o: o == "bool")
    elif name == "props_extractor":
        cands = fns_by_sig(ctx, lambda i: len(i) == 2 and i[0].startswith("&mut VueJsxTransformVisitor") and i[1] == "&%sExprOrSpread" % A, lambda o: o == "core::option::Option<%sExpr>" % A)
    elif name == "emits_extractor":
        cands = fns_by_sig(ctx, lambda i: len(i) == 2 and i[1] == "&%sExprOrSpread" % A, lambda o: o == "core::option::Option<%sArrayLit>" % A)
    elif name == "type_elements_resolver":
        cands = fns_by_sig(ctx, lambda i: len(i) == 3 and i[1] == "&%sTsType" % A and "RefinedTsTypeElement" in i[2], lambda o: o == "()")
    elif name == "runtime_type_inferrer":
        cands = fns_by_sig(ctx, lambda i: len(i) == 2 and i[1] == "&%sTsType" % A, lambda o: o.startswith("indexmap::set::IndexSet<core::option::Option<swc_atoms::Atom>"))
    elif name == "indexed_access_resolver":
        cands = fns_by_sig(ctx, lambda i: len(i) == 3 and i[1] == "&%sTsType" % A and i[2] == "&%sTsType" % A, lambda o: o == "core::option::Option<%sTsType>" % A)
    elif name == "string_union_resolver":
        cands = fns_by_sig(ctx, lambda i: len(i) == 2 and i[1] == "&%sTsType" % A, lambda o: o == "alloc::vec::Vec<swc_atoms::Atom>")
    elif name == "props_builder":
        cands = fns_by_sig(ctx, lambda i: len(i) == 3 and i[1] in ("&%sTsTypeAnn" % A, "&%sTsType" % A), lambda o: o == A + "ObjectLit")
    elif name == "v_models_decoupler":
        cands = fns_by_sig(ctx, lambda i: i == ["alloc::vec::Vec<core::option::Option<%sExprOrSpread>>" % A], lambda o: "Iterator" in o)
    elif name == "slot_helper_builder":
        cands = fns_by_sig(ctx, lambda i: i == [A + "Ident", A + "Ident"], lambda o: o == A + "FnDecl")
    elif name == "modifiers_builder":
        cands = fns_by_sig(ctx, lambda i: len(i) == 2 and "BTreeSet<swc_atoms::Atom>" in i[0] and i[1] == "bool", lambda o: o == "core::option::Option<%sExpr>" % A)
    elif name == "jsx_text_fn":
        cands = fns_by_sig(ctx, lambda i: len(i) == 2 and i[1] == "&%sJSXText" % A, lambda o: o == "core::option::Option<%sExpr>" % A)
    elif name == "resolve_directive_fn":
        cands = fns_by_sig(ctx, lambda i: len(i) == 3 and i[1] in ("&str", "&swc_atoms::Atom", "swc_atoms::Atom", "&alloc::string::String") and i[2] == "&%sJSXElement" % A, lambda o: o == A + "Expr")
    elif name == "iife_builder":
        cands = fns_by_sig(ctx, lambda i: len(i) == 2 and i[0].startswith("&mut VueJsxTransformVisitor") and i[1] == "alloc::vec::Vec<core::option::Option<%sExprOrSpread>>" % A, lambda o: o == "alloc::vec::Vec<core::option::Option<%sExprOrSpread>>" % A)
    elif name == "slot_ident_fn":
        cands = [b for b in fns_by_sig(ctx, lambda i: len(i) == 1 and i[0].startswith("&mut VueJsxTransformVisitor"), lambda o: o == A + "Ident")
                 if any(n.get("k") == "Field" and n.get("name") == "injecting_vars" for n in walk(b["body"]))]
    elif name == "pragma_search":
        cands = fns_by_sig(ctx, lambda i: len(i) == 2 and i[0].startswith("&mut VueJsxTransformVisitor") and i[1] == "swc_common::Span", lambda o: o == "()")
    elif name in ("fragment_pred", "on_pred"):
        cands = fns_by_sig(ctx, lambda i: i == ["&str"], lambda o: o == "bool")
        has = lambda b: any(const_str(n) == "Fragment" for n in walk(b["body"]))
        cands = [b for b in cands if has(b) == (name == "fragment_pred")]
    elif name == "first_lower":
        cands = fns_by_sig(ctx, lambda i: i == ["&str"], lambda o: o == "alloc::string::String")
        cands = [b for b in cands if not _mentions_line_break(b)]
    elif name == "member_to_expr":
        cands = fns_by_sig(ctx, lambda i: i == ["&%sJSXMemberExpr" % A], lambda o: o == A + "Expr")
    elif name == "v_model_parser":
        cands = fns_by_sig(ctx, lambda i: len(i) == 4 and "&%sJSXAttr" % A in i and "bool" in i, lambda o: o.endswith("Directive"))
    elif name in ("v_slots_parser", "v_html_parser", "v_text_parser"):
        want = {"v_slots_parser": "Slots", "v_html_parser": "Html", "v_text_parser": "Text"}[name]
        cands = fns_by_sig(ctx, lambda i: i == ["&%sJSXAttr" % A], lambda o: o.endswith("Directive"))
        cands = [b for b in cands if any(n.get("k") in ("Ctor", "Struct") and (n.get("adt") or "").endswith("Directive") and n.get("variant") == want for n in walk(b["body"]))]
    elif name == "lit_key_unwrapper":
        cands = fns_by_sig(ctx, lambda i: i == ["&%sPropName" % A], lambda o: o.startswith("core::option::Option<alloc::borrow::Cow<") and o.endswith("PropName>>"))
    elif name == "attr_const_pred":
        cands = fns_by_sig(ctx, lambda i: i == ["&%sJSXAttrValue" % A], lambda o: o == "bool")
    elif name == "undefined_fn":
        cands = fns_by_sig(ctx, lambda i: i == [], lambda o: o == A + "Expr")
    elif name == "modifiers_parser":
        cands = fns_by_sig(ctx, lambda i: i == ["&[core::option::Option<%sExprOrSpread>]" % A], lambda o: "BTreeSet<swc_atoms::Atom>" in o)
    elif name == "depth_gate_fn":
        # the recursion guard of the type resolvers: whatever hands out the guard object (never folded into its callers: R08.2 reads it)
        cands = fns_by_sig(ctx, lambda i: len(i) == 2 and i[1] == "swc_common::Span", lambda o: o.startswith("core::option::Option<resolve_type::ResolveGuard<"))
    elif name == "slot_helper_fn":
        cands = [b for b in fns_by_sig(ctx, lambda i: len(i) == 1 and i[0].startswith("&mut VueJsxTransformVisitor"), lambda o: o == A + "Ident")
                 if any(n.get("k") == "Field" and n.get("name") == "slot_helper_ident" for n in walk(b["body"]))]
    else:
        raise KeyError(name)
    if len(cands) > 1 and name in CANON:
        # an extracted helper may share a signature: the documented name breaks the tie
        named = [b for b in cands if b.get("name") == CANON[name]]
        if len(named) == 1:
            cands = named
    res = cands[0] if len(cands) == 1 else None
    ctx.cache[key] = res
    ctx.cache[("role_cands", name)] = [c["path"] for c in cands]
    return res


# the name each role's function has on the reference tree: the rules' text expectations are written with these names, and the
# canonical rendering (hirtext) prints whatever function fills the role under this name, so a renamed helper changes nothing
CANON = {
    "element_builder": "transform_jsx_element", "fragment_builder": "transform_jsx_fragment", "children_builder": "transform_children",
    "attr_fold": "transform_attrs", "tag_fn": "transform_tag", "component_pred": "is_component", "directive_parser": "parse_directive",
    "directive_pred": "is_directive", "import_fn": "import_from_vue", "pragma_fn": "get_pragma", "injector": "inject_define_component_option",
    "wrapper": "wrap_children", "dc_pred": "is_define_component_call", "text_cleaner": "transform_text", "dedupe": "dedupe_props",
    "is_constant": "is_constant", "props_extractor": "extract_props_type", "emits_extractor": "extract_emits_type",
    "type_elements_resolver": "resolve_type_elements", "runtime_type_inferrer": "infer_runtime_type",
    "indexed_access_resolver": "resolve_indexed_access", "string_union_resolver": "resolve_string_or_union_strings",
    "props_builder": "build_props_type", "v_models_decoupler": "decouple_v_models", "slot_helper_builder": "build_slot_helper",
    "modifiers_builder": "transform_modifiers", "jsx_text_fn": "transform_jsx_text", "resolve_directive_fn": "resolve_directive",
    "iife_builder": "build_iife", "slot_ident_fn": "generate_unique_slot_ident", "pragma_search": "search_jsx_pragma",
    "fragment_pred": "is_fragment_name", "on_pred": "is_on", "first_lower": "lower_first", "member_to_expr": "jsx_member_to_expr",
    "v_model_parser": "parse_v_model_directive", "v_slots_parser": "parse_v_slots_directive", "v_html_parser": "parse_v_html_directive",
    "v_text_parser": "parse_v_text_directive", "lit_key_unwrapper": "try_unwrap_lit_prop_name", "attr_const_pred": "is_jsx_attr_value_constant",
    "undefined_fn": "undefined", "modifiers_parser": "parse_modifiers", "slot_helper_fn": "generate_slot_helper", "depth_gate_fn": "enter_resolve",
}


def _reference():
    global LOCAL_NAMES
    import json, os
    if LOCAL_NAMES is None:
        p = os.path.join(os.path.dirname(os.path.dirname(os.path.dirname(os.path.abspath(__file__)))), "rules", "local_names.json")
        LOCAL_NAMES = json.load(open(p)) if os.path.exists(p) else {}
        for k, d in (("functions", []), ("signatures", {}), ("roles", {}), ("locals", {})):
            LOCAL_NAMES.setdefault(k, d)
    return LOCAL_NAMES


def canonicalise_fields(ctx):
    """A field of the visitor struct the reference does not know, declared at the position of a reference field that is gone (same
    number of fields), is that field renamed (its type may have changed too): it is presented under the reference name, so the
    state discipline on record for it is the one that is checked."""
    ref = _reference().get("fields") or {}
    done = {}
    for sname, want in ref.items():
        have = [f["name"] for f in (ctx.facts.struct_fields(sname) or [])]
        if len(have) != len(want) or have == want:
            continue
        m = {h: w for h, w in zip(have, want) if h != w and h not in want and w not in have}
        if m:
            ctx.facts.rename_fields(sname, m)
            done.update(m)
    # a field whose type is a local enum of the shape of Option (one variant without payload, one with a single positional payload)
    # is read as an Option: the rules know the empty / filled states of a cell as None / Some
    optioned = {}
    enums = [it for it in ctx.facts.items if it["crate"] == VISITOR_CRATE and it.get("kind") == "enum"]
    all_variants = [v["name"] for it in enums for v in it["variants"]]
    for sname in ref:
        for f in ctx.facts.struct_fields(sname) or []:
            for it in enums:
                if it["path"] == f["ty"] and len(it["variants"]) == 2:
                    vs = sorted(it["variants"], key=lambda v: len(v["fields"]))
                    if len(vs[0]["fields"]) == 0 and len(vs[1]["fields"]) == 1 and vs[1]["fields"][0]["name"] == "0" \
                            and all(all_variants.count(v["name"]) == 1 for v in vs) and {vs[0]["name"], vs[1]["name"]} != {"None", "Some"}:
                        m = {vs[0]["name"]: "None", vs[1]["name"]: "Some"}
                        optioned[it["path"]] = m
                        ctx.facts.rename_variants(it["path"], m)
    if done or optioned:
        ctx.cache.clear()
    ctx.renamed_fields = done
    ctx.option_shaped_enums = optioned
    return done


def canonicalise(ctx):
    """Present the functions of this tree under the paths the reviewed tree gives them: (1) the function filling each role gets the
    role's reference path (a renamed or moved helper changes nothing for the rules); (2) a function the reference does not know whose
    signature equals that of exactly one reference function that is gone is taken to be that function, renamed or moved."""
    canonicalise_fields(ctx)
    ref = _reference()
    mapping = {}
    taken = {}
    for rname, canon in CANON.items():
        b = role(ctx, rname)
        if b is not None:
            want = ref["roles"].get(rname) or "::".join(b["path"].split("::")[:-1] + [canon])
            taken[(b["crate"], want)] = b["path"]
            if b["path"] != want:
                mapping[b["path"]] = want
    present = {(b["crate"], b["path"]) for b in ctx.facts.hir}
    if ref["functions"]:
        known = set(ref["functions"])
        users = [b for b in ctx.facts.hir if b["crate"] in (VISITOR_CRATE, PLUGIN_CRATE) and not b.get("mac")]
        gone = [f for f in ref["functions"] if tuple(f.split("::", 1)) not in present and f.split("::", 1)[1] not in mapping.values()]
        new = [b for b in users if (b["crate"] + "::" + b["path"]) not in known and b["path"] not in mapping and not b.get("impl_trait")]
        for b in new:
            sig = [b["inputs"], b["output"]]
            cands = [f for f in gone if f.startswith(b["crate"] + "::") and ref["signatures"].get(f) == sig]
            twins = [x for x in new if [x["inputs"], x["output"]] == sig]
            if len(cands) == 1 and len(twins) == 1:
                mapping[b["path"]] = cands[0].split("::", 1)[1]
                taken[(b["crate"], mapping[b["path"]])] = b["path"]
    # a different local function that sits on a path that is about to be taken must not be confused with it
    for b in ctx.facts.hir:
        if b["crate"] in (VISITOR_CRATE, PLUGIN_CRATE) and not b.get("mac") and (b["crate"], b["path"]) in taken \
                and taken[(b["crate"], b["path"])] != b["path"] and b["path"] not in mapping and not b.get("impl_trait"):
            mapping[b["path"]] = b["path"] + "_other"
    if mapping:
        ctx.facts.rename_paths(mapping)
        ctx.cache.clear()
    return mapping


LOCAL_NAMES = None


def local_bindings(hb):
    """[(type, name, binding id)] of a function in source order (closures included), `self` left out"""
    out = []
    for root in list(hb.get("params", [])) + [hb["body"]]:
        for n in walk(root):
            if n.get("k") == "PBind" and n.get("name") != "self":
                out.append((n.get("ty") or "?", n["name"], n["id"]))
    out.sort(key=lambda t: t[2])
    return out


def canonicalise_locals(ctx):
    """The rules name locals the way the reviewed tree does (rules/local_names.json: per function, the (type, name) pairs in source
    order). A local whose name is unknown to that table is presented under the reference name that no binding of the same type
    carries any more, when that pairing is unambiguous (same number of unmatched names of that type, matched in order)."""
    from ..facts import rename_locals
    _reference()
    done = {}
    for hb in ctx.facts.hir:
        if hb["crate"] not in (VISITOR_CRATE, PLUGIN_CRATE) or hb.get("mac"):
            continue
        ref = LOCAL_NAMES["locals"].get(hb["crate"] + "::" + hb["path"])
        if not ref:
            continue
        binds = local_bindings(hb)
        by_ty_ref = {}
        for ty, nm in ref:
            by_ty_ref.setdefault(ty, []).append(nm)
        by_ty_act = {}
        for ty, nm, bid in binds:
            by_ty_act.setdefault(ty, []).append((nm, bid))
        idmap = {}
        for ty, act in by_ty_act.items():
            refn = by_ty_ref.get(ty, [])
            known = set(refn)
            if all(nm in known for nm, _ in act):
                continue
            if len(act) == len(refn):
                # same number of bindings of this type: pair them in source order; names the reference knows must sit where it has them
                if all(nm == r for (nm, _), r in zip(act, refn) if nm in known):
                    for (nm, bid), r in zip(act, refn):
                        if nm != r:
                            idmap[bid] = (nm, r)
                continue
            # otherwise pair the distinct unknown names with the distinct missing names, in order
            a2 = [x for x in dict.fromkeys(nm for nm, _ in act) if x not in known]
            live_names = {nm for nm, _ in act}
            r2 = [x for x in dict.fromkeys(refn) if x not in live_names]
            if a2 and len(a2) == len(r2):
                m = dict(zip(a2, r2))
                for nm, bid in act:
                    if nm in m:
                        idmap[bid] = (nm, m[nm])
        if not idmap:
            continue
        # one old name -> one new name within the function (MIR and capture lists are renamed by name)
        by_old = {}
        for bid, (old, new) in idmap.items():
            by_old.setdefault(old, set()).add(new)
        untouched = {nm for _, nm, bid in binds if bid not in idmap}
        namemap = {o: next(iter(ns)) for o, ns in by_old.items() if len(ns) == 1 and o not in untouched}
        idmap = {bid: new for bid, (old, new) in idmap.items() if old in namemap}
        if idmap:
            rename_locals(ctx.facts, hb, idmap, namemap)
            done[hb["path"]] = namemap
    if done:
        ctx.cache.clear()
    return done


def family_body(ctx, hb):
    """the body of `hb` together with the bodies of the local functions the reviewed tree does not have that it still refers to after
    normalisation (helpers that could not be folded in: used as a function value such as `.map(helper)`, recursive): one synthetic block,
    so that a rule anchored in `hb` reads the code that was merely moved out of it"""
    ref = set(_reference().get("functions") or [])
    by_path = {(b["crate"], b["path"]): b for b in ctx.facts.hir}
    seen = {hb["path"]}
    parts = [hb["body"]]
    todo = [hb["body"]]
    while todo:
        body = todo.pop()
        for n in walk(body):
            path = None
            if n.get("k") in ("Call", "MethodCall") and n.get("callee"):
                path = n["callee"]
            elif n.get("k") == "Path" and n["res"].get("r") == "def" and n["res"].get("path"):
                path = n["res"]["path"]
            if path and path not in seen and (hb["crate"], path) in by_path and (hb["crate"] + "::" + path) not in ref:
                b2 = by_path[(hb["crate"], path)]
                if b2.get("mac") or b2.get("impl_trait"):
                    continue
                seen.add(path)
                parts.append(b2["body"])
                todo.append(b2["body"])
    if len(parts) == 1:
        return hb["body"]
    return {"k": "Block", "sp": hb["body"].get("sp"), "stmts": parts[1:], "expr": parts[0], "family_of": hb["path"]}


def inline_helpers(ctx):
    """inline the helper functions the reviewed tree does not have (see vjsx/normalise.py)"""
    from .. import normalise
    if LOCAL_NAMES is None or not LOCAL_NAMES.get("functions"):
        return {}
    keep = set(LOCAL_NAMES["functions"])
    for rname in CANON:      # a function that fills a role is analysed as that role wherever it lives now
        b = role(ctx, rname)
        if b is not None:
            keep.add(b["crate"] + "::" + b["path"])
    done = normalise.inline_new_helpers(ctx.facts, keep)
    hoisted = normalise.propagate_option_locals(ctx.facts)
    scalar = normalise.scalarise_new_structs(ctx.facts, set(LOCAL_NAMES.get("structs") or [])) if LOCAL_NAMES.get("structs") else {}
    folded = normalise.fold_constant_matches(ctx.facts)
    for k, v in folded.items():
        done["matches on a constant variant replaced by the selected arm in " + k] = [str(v)]
    untupled = normalise.untuple_bool_matches(ctx.facts)
    for k, v in untupled.items():
        done["tuple matches with a boolean component read as nested ifs in " + k] = [str(v)]
    if done or hoisted or scalar:
        ctx.cache.clear()
    for k, v in hoisted.items():
        done["option reads held in locals of " + k] = v
    for k, v in scalar.items():
        done["locals grouped into a new struct in " + k] = ["%s.{%s}" % (a, ", ".join(fs)) for a, fs in v.items()]
    if scalar:
        canonicalise_locals(ctx)    # the fields carry the names the separate locals had (or new ones): align them like any local
    return done


def role_or_fail(ctx, rule, name):
    b = role(ctx, name)
    if b is None:
        rule.ob("role:" + name, False, "-", "role '%s' resolves to %s candidate(s) %s: analysis precondition failed (fail closed)" % (
            name, len(ctx.cache.get(("role_cands", name), [])), ctx.cache.get(("role_cands", name))))
    return b


def mir_of(ctx, hir_body):
    return ctx.facts.mir_by_path.get((hir_body["crate"], hir_body["path"]))


def family(ctx, hir_body):
    """MIR bodies (root + closures) of a HIR fn"""
    m = mir_of(ctx, hir_body)
    return ctx.facts.mir_family(m) if m else []


# ---- macro invocations in HIR -----------------------------------------------------
def macro_invocations(body_root, macro):
    """Outermost HIR nodes produced by an expansion of `macro` (innermost name == macro).
    Yields (node, parents)."""
    for n, ps in walk_with_parents(body_root):
        m = n.get("mac") or []
        if m and m[0] == macro:
            pm = (ps[-1].get("mac") or []) if ps else []
            if not (pm and pm[0] == macro and len(pm) == len(m)):
                yield n, ps


def macro_args(inv, macro):
    """argument expressions of a macro invocation: maximal sub-nodes not produced by that expansion"""
    depth = len(inv.get("mac") or [])
    out = []

    def rec(n):
        for c in children(n):
            m = c.get("mac") or []
            if len(m) < depth or (m[len(m) - depth:] != (inv.get("mac") or [])):
                out.append(c)
            else:
                rec(c)
    rec(inv)
    return out


IDENT_START = re.compile(r"^[A-Za-z_$][A-Za-z0-9_$]*$")


def is_ident_name(s):
    return bool(IDENT_START.match(s))
