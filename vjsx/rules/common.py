"""Helpers shared by the rules: labels, call graph, role resolution, macro invocations."""
import re
from ..facts import AST, VISITOR_CRATE, PLUGIN_CRATE, walk, walk_with_parents, children, strip_transparent, const_str, loc
from ..cfg import CFG, calls, callee_name, place_of, op_local, op_const

VISITOR_TY = "VueJsxTransformVisitor<C>"


def label(body):
    """stable, line-free label of a body: crate-less path, closures as `{closure#k}`"""
    return body["path"]


def mloc(body, node):
    sp = node.get("sp") or body.get("sp") or [0, 0, 0, 0]
    return "%s:%d" % (body.get("file", "?"), sp[0])


def cfg_of(ctx, body):
    key = ("cfg", body["crate"], body["path"])
    if key not in ctx.cache:
        ctx.cache[key] = CFG(body)
    return ctx.cache[key]


# ---- call graph ------------------------------------------------------------------
def call_graph(ctx):
    """edges between local bodies (both crates). closures are attached to their creator.
    Returns (nodes: dict path->body, edges: dict path->set(path))."""
    if "callgraph" in ctx.cache:
        return ctx.cache["callgraph"]
    F = ctx.facts
    nodes = {}
    for b in F.mir:
        nodes[(b["crate"], b["path"])] = b
    visit_methods = [k for k, b in nodes.items() if "::visit_mut_" in k[1] and b["dk"] == "AssocFn" and "VisitMut" in k[1]]
    edges = {k: set() for k in nodes}
    for k, b in nodes.items():
        for blk in b["blocks"]:
            for s in blk["stmts"]:
                if s["k"] == "assign" and s["rv"].get("rk") == "agg" and s["rv"].get("agg") == "closure":
                    ck = (b["crate"], s["rv"]["def"])
                    if ck in nodes:
                        edges[k].add(ck)
            t = blk.get("term") or {}
            if t.get("k") == "call":
                name = t.get("resolved") or t.get("callee") or ""
                if (b["crate"], name) in nodes:
                    edges[k].add((b["crate"], name))
                elif (VISITOR_CRATE, _strip_crate(name)) in nodes:
                    edges[k].add((VISITOR_CRATE, _strip_crate(name)))
                if name.endswith("visit_mut_children_with") or name.endswith("visit_mut_with"):
                    # re-entrancy through swc_ecma_visit
                    for vm in visit_methods:
                        edges[k].add(vm)
    ctx.cache["callgraph"] = (nodes, edges)
    return nodes, edges


def _strip_crate(name):
    for c in (VISITOR_CRATE + "::", PLUGIN_CRATE + "::"):
        if name.startswith(c):
            return name[len(c):]
    return name


def reachable_from(ctx, roots):
    nodes, edges = call_graph(ctx)
    seen = set()
    st = [r for r in roots if r in nodes]
    while st:
        x = st.pop()
        if x in seen:
            continue
        seen.add(x)
        st.extend(edges.get(x, ()))
    return seen


def sccs(nodes, edges):
    """Tarjan; returns list of lists"""
    index = {}
    low = {}
    onstack = set()
    stack = []
    out = []
    counter = [0]
    import sys
    sys.setrecursionlimit(10000)

    def strong(v):
        index[v] = low[v] = counter[0]
        counter[0] += 1
        stack.append(v)
        onstack.add(v)
        for w in edges.get(v, ()):
            if w not in index:
                strong(w)
                low[v] = min(low[v], low[w])
            elif w in onstack:
                low[v] = min(low[v], index[w])
        if low[v] == index[v]:
            comp = []
            while True:
                w = stack.pop()
                onstack.discard(w)
                comp.append(w)
                if w == v:
                    break
            out.append(comp)
    for v in nodes:
        if v not in index:
            strong(v)
    return out


# ---- role resolution (by signature / state touched, never by helper name) ---------
def visitor_methods(ctx):
    """HIR bodies that are methods of the VisitMut impl for the visitor"""
    return [b for b in ctx.facts.hir if b["crate"] == VISITOR_CRATE and b.get("impl_trait", "").endswith("VisitMut")
            and b.get("impl_self", "").startswith("VueJsxTransformVisitor")]


def visitor_inherent(ctx):
    return [b for b in ctx.facts.hir if b["crate"] == VISITOR_CRATE and not b.get("impl_trait")
            and b.get("impl_self", "").startswith("VueJsxTransformVisitor") and not b.get("mac")]


def fns_by_sig(ctx, inputs_pred, output_pred, crate=VISITOR_CRATE):
    out = []
    for b in ctx.facts.hir:
        if b["crate"] != crate or b.get("mac"):
            continue
        if inputs_pred(b["inputs"]) and output_pred(b["output"]):
            out.append(b)
    return out


def role(ctx, name):
    """Resolve a role to exactly one HIR body or None. Roles are defined by type signature."""
    key = ("role", name)
    if key in ctx.cache:
        return ctx.cache[key]
    A = AST
    cands = []
    if name == "element_builder":
        cands = fns_by_sig(ctx, lambda i: len(i) == 2 and i[1] == "&%sJSXElement" % A, lambda o: o == A + "Expr")
    elif name == "fragment_builder":
        cands = fns_by_sig(ctx, lambda i: len(i) == 2 and i[1] == "&%sJSXFragment" % A, lambda o: o == A + "Expr")
    elif name == "children_builder":
        cands = fns_by_sig(ctx, lambda i: len(i) >= 2 and i[1] == "&[%sJSXElementChild]" % A, lambda o: o == A + "Expr")
    elif name == "attr_fold":
        cands = fns_by_sig(ctx, lambda i: len(i) >= 2 and re.sub(r"'\w+ ", "", i[1]) == "&[%sJSXAttrOrSpread]" % A, lambda o: True)
    elif name == "tag_fn":
        cands = fns_by_sig(ctx, lambda i: len(i) == 2 and i[1] == "&%sJSXElementName" % A, lambda o: o == A + "Expr")
    elif name == "component_pred":
        cands = fns_by_sig(ctx, lambda i: len(i) == 2 and i[1] == "&%sJSXElementName" % A, lambda o: o == "bool")
    elif name == "directive_parser":
        cands = fns_by_sig(ctx, lambda i: len(i) == 2 and i[0] == "&%sJSXAttr" % A and i[1] == "bool", lambda o: o.endswith("Directive"))
    elif name == "directive_pred":
        cands = fns_by_sig(ctx, lambda i: i == ["&%sJSXAttr" % A], lambda o: o == "bool")
    elif name == "import_fn":
        cands = fns_by_sig(ctx, lambda i: len(i) == 2 and i[0].startswith("&mut VueJsxTransformVisitor") and i[1] == "&'static str", lambda o: o == A + "Ident")
    elif name == "pragma_fn":
        cands = [b for b in fns_by_sig(ctx, lambda i: len(i) == 1 and i[0].startswith("&mut VueJsxTransformVisitor"), lambda o: o == A + "Ident")
                 if any(n.get("k") == "Field" and n.get("name") == "pragma" for n in walk(b["body"]))]
    elif name == "injector":
        cands = fns_by_sig(ctx, lambda i: len(i) >= 1 and i[0] == "&mut %sCallExpr" % A, lambda o: o == "()")
    elif name == "wrapper":
        cands = fns_by_sig(ctx, lambda i: len(i) == 4 and i[1] == "alloc::vec::Vec<core::option::Option<%sExprOrSpread>>" % A and "SlotFlag" in i[2], lambda o: o == A + "Expr")
    elif name == "dc_pred":
        cands = fns_by_sig(ctx, lambda i: len(i) == 2 and i[1] == "&%sCallExpr" % A, lambda o: o == "bool")
    elif name == "text_cleaner":
        cands = fns_by_sig(ctx, lambda i: i == ["&str"], lambda o: o == "alloc::string::String")
        cands = [b for b in cands if any(n.get("k") == "Loop" for n in walk(b["body"]))]
    elif name == "dedupe":
        cands = fns_by_sig(ctx, lambda i: i == ["alloc::vec::Vec<%sPropOrSpread>" % A], lambda o: o == "alloc::vec::Vec<%sPropOrSpread>" % A)
    elif name == "is_constant":
        cands = fns_by_sig(ctx, lambda i: i == ["&%sExpr" % A], lambda o: o == "bool")
    elif name == "props_extractor":
        cands = fns_by_sig(ctx, lambda i: len(i) == 2 and i[0].startswith("&mut VueJsxTransformVisitor") and i[1] == "&%sExprOrSpread" % A, lambda o: o == "core::option::Option<%sExpr>" % A)
    elif name == "emits_extractor":
        cands = fns_by_sig(ctx, lambda i: len(i) == 2 and i[1] == "&%sExprOrSpread" % A, lambda o: o == "core::option::Option<%sArrayLit>" % A)
    elif name == "type_elements_resolver":
        cands = fns_by_sig(ctx, lambda i: len(i) == 3 and i[1] == "&%sTsType" % A and "RefinedTsTypeElement" in i[2], lambda o: o == "()")
    elif name == "runtime_type_inferrer":
        cands = fns_by_sig(ctx, lambda i: len(i) == 2 and i[1] == "&%sTsType" % A, lambda o: o.startswith("indexmap::set::IndexSet<core::option::Option<swc_atoms::Atom>"))
    elif name == "indexed_access_resolver":
        cands = fns_by_sig(ctx, lambda i: len(i) == 3 and i[1] == "&%sTsType" % A and i[2] == "&%sTsType" % A, lambda o: o == "core::option::Option<%sTsType>" % A)
    elif name == "string_union_resolver":
        cands = fns_by_sig(ctx, lambda i: len(i) == 2 and i[1] == "&%sTsType" % A, lambda o: o == "alloc::vec::Vec<swc_atoms::Atom>")
    elif name == "props_builder":
        cands = fns_by_sig(ctx, lambda i: len(i) == 3 and i[1] == "&%sTsTypeAnn" % A, lambda o: o == A + "ObjectLit")
    elif name == "v_models_decoupler":
        cands = fns_by_sig(ctx, lambda i: i == ["alloc::vec::Vec<core::option::Option<%sExprOrSpread>>" % A], lambda o: "Iterator" in o)
    elif name == "slot_helper_builder":
        cands = fns_by_sig(ctx, lambda i: i == [A + "Ident", A + "Ident"], lambda o: o == A + "FnDecl")
    elif name == "modifiers_builder":
        cands = fns_by_sig(ctx, lambda i: len(i) == 2 and "BTreeSet<swc_atoms::Atom>" in i[0] and i[1] == "bool", lambda o: o == "core::option::Option<%sExpr>" % A)
    elif name == "jsx_text_fn":
        cands = fns_by_sig(ctx, lambda i: len(i) == 2 and i[1] == "&%sJSXText" % A, lambda o: o == "core::option::Option<%sExpr>" % A)
    elif name == "resolve_directive_fn":
        cands = fns_by_sig(ctx, lambda i: len(i) == 3 and i[1] == "&str" and i[2] == "&%sJSXElement" % A, lambda o: o == A + "Expr")
    elif name == "iife_builder":
        cands = fns_by_sig(ctx, lambda i: len(i) == 2 and i[0].startswith("&mut VueJsxTransformVisitor") and i[1] == "alloc::vec::Vec<core::option::Option<%sExprOrSpread>>" % A, lambda o: o == "alloc::vec::Vec<core::option::Option<%sExprOrSpread>>" % A)
    elif name == "slot_ident_fn":
        cands = [b for b in fns_by_sig(ctx, lambda i: len(i) == 1 and i[0].startswith("&mut VueJsxTransformVisitor"), lambda o: o == A + "Ident")
                 if any(n.get("k") == "Field" and n.get("name") == "injecting_vars" for n in walk(b["body"]))]
    elif name == "pragma_search":
        cands = fns_by_sig(ctx, lambda i: len(i) == 2 and i[0].startswith("&mut VueJsxTransformVisitor") and i[1] == "swc_common::Span", lambda o: o == "()")
    else:
        raise KeyError(name)
    res = cands[0] if len(cands) == 1 else None
    ctx.cache[key] = res
    ctx.cache[("role_cands", name)] = [c["path"] for c in cands]
    return res


def role_or_fail(ctx, rule, name):
    b = role(ctx, name)
    if b is None:
        rule.ob("role:" + name, False, "-", "role '%s' resolves to %s candidate(s) %s: analysis precondition failed (fail closed)" % (
            name, len(ctx.cache.get(("role_cands", name), [])), ctx.cache.get(("role_cands", name))))
    return b


def mir_of(ctx, hir_body):
    return ctx.facts.mir_by_path.get((hir_body["crate"], hir_body["path"]))


def family(ctx, hir_body):
    """MIR bodies (root + closures) of a HIR fn"""
    m = mir_of(ctx, hir_body)
    return ctx.facts.mir_family(m) if m else []


# ---- macro invocations in HIR -----------------------------------------------------
def macro_invocations(body_root, macro):
    """Outermost HIR nodes produced by an expansion of `macro` (innermost name == macro).
    Yields (node, parents)."""
    for n, ps in walk_with_parents(body_root):
        m = n.get("mac") or []
        if m and m[0] == macro:
            pm = (ps[-1].get("mac") or []) if ps else []
            if not (pm and pm[0] == macro and len(pm) == len(m)):
                yield n, ps


def macro_args(inv, macro):
    """argument expressions of a macro invocation: maximal sub-nodes not produced by that expansion"""
    depth = len(inv.get("mac") or [])
    out = []

    def rec(n):
        for c in children(n):
            m = c.get("mac") or []
            if len(m) < depth or (m[len(m) - depth:] != (inv.get("mac") or [])):
                out.append(c)
            else:
                rec(c)
    rec(inv)
    return out


IDENT_START = re.compile(r"^[A-Za-z_$][A-Za-z0-9_$]*$")


def is_ident_name(s):
    return bool(IDENT_START.match(s))
