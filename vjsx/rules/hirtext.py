"""Canonical, span-free rendering of typed HIR expressions and patterns (for tables and sibling comparison)."""
from ..facts import strip_transparent, children


FN_ALIAS = {}   # local function path -> reference name of the role it fills (installed by common.install_aliases)


def fn_name(path, default):
    return FN_ALIAS.get(path or "", default)


def short_path(p):
    return (p or "?").split("::")[-1]


def pat_str(p):
    k = p.get("k")
    if k in ("PTupleStruct", "PStruct"):
        name = p.get("variant") or short_path(p.get("adt"))
        inner = [pat_str(x) for x in p.get("pats", [])] + ["%s: %s" % (f["name"], pat_str(f["p"])) for f in p.get("fields", [])]
        rest = ", .." if p.get("rest") or ("dotdot" in p) else ""
        return "%s(%s%s)" % (name, ", ".join(inner), rest)
    if k == "PBind":
        return "$" + (pat_str(p["sub"]) if p.get("sub") else "")
    if k == "PWild":
        return "_"
    if k == "POr":
        return " | ".join(sorted(pat_str(x) for x in p["pats"]))
    if k in ("PRef", "PBox", "PDeref"):
        return pat_str(p["p"])
    if k == "PLit":
        return repr(p.get("v"))
    if k == "PPath":
        return p["res"].get("variant") or short_path(p["res"].get("path"))
    if k == "PTuple":
        return "(%s)" % ", ".join(pat_str(x) for x in p["pats"])
    if k == "PSlice":
        parts = [pat_str(x) for x in p.get("before", [])]
        if p.get("mid") is not None:
            parts.append("..")
        parts += [pat_str(x) for x in p.get("after", [])]
        return "[%s]" % ", ".join(parts)
    if k == "PRange":
        return "%s..%s" % (pat_str(p["lo"]) if p.get("lo") else "", pat_str(p["hi"]) if p.get("hi") else "")
    if k == "PGuard":
        return pat_str(p["p"]) + " if .."
    return k or "?"


def expr_str(n, names=None, depth=0):
    """names: optional dict local-id -> canonical name (alpha renaming)"""
    if n is None:
        return ""
    if depth > 60:
        return "…"
    k = n.get("k")
    r = lambda x: expr_str(x, names, depth + 1)
    if k == "Path":
        res = n["res"]
        if res.get("r") == "local":
            if names is not None:
                return names.setdefault(res["id"], "v%d" % len(names))
            return res["name"]
        if "value" in res and isinstance(res["value"], (str, int)):
            return repr(res["value"])
        return res.get("variant") or fn_name(res.get("path"), short_path(res.get("path")))
    if k == "Lit":
        return repr(n.get("v"))
    if k == "Field":
        return "%s.%s" % (r(n["e"]), n["name"])
    if k == "Ref":
        return r(n["e"])
    if k == "Unary":
        if n.get("op") == "*":
            return r(n["e"])
        return "%s%s" % (n.get("op"), r(n["e"]))
    if k == "Binary":
        return "(%s %s %s)" % (r(n["l"]), n.get("op"), r(n["r"]))
    if k == "MethodCall":
        if n["method"] in ("clone", "into", "to_owned", "as_ref", "as_deref", "borrow", "to_string", "as_str") and not n["args"]:
            return r(n["recv"])
        return "%s.%s(%s)" % (r(n["recv"]), fn_name(n.get("callee"), n["method"]), ", ".join(r(a) for a in n["args"]))
    if k == "Call":
        cal = fn_name(n.get("callee"), short_path(n.get("callee"))) if n.get("callee") else r(n.get("f"))
        if (n.get("callee") or "").endswith("Box::<T>::new") and len(n["args"]) == 1:
            return r(n["args"][0])
        if n.get("callee") in ("core::convert::From::from", "core::convert::Into::into") and len(n["args"]) == 1:
            return r(n["args"][0])
        return "%s(%s)" % (cal, ", ".join(r(a) for a in n["args"]))
    if k == "Ctor":
        return "%s(%s)" % (n.get("variant") or short_path(n.get("adt")), ", ".join(r(a) for a in n["args"]))
    if k == "Struct":
        fs = ", ".join("%s: %s" % (f["name"], r(f["e"])) for f in n["fields"])
        base = ", ..%s" % r(n["base"]) if n.get("base") else ""
        return "%s{%s%s}" % (n.get("variant") or short_path(n.get("adt")), fs, base)
    if k == "Block":
        parts = [r(s) for s in n.get("stmts", [])]
        if n.get("expr") is not None:
            parts.append(r(n["expr"]))
        if len(parts) == 1:
            return parts[0]
        return "{%s}" % "; ".join(parts)
    if k == "Let":
        from_ = r(n["init"]) if n.get("init") is not None else ""
        return "let %s = %s" % (_pat_named(n["pat"], names), from_)
    if k == "LetExpr":
        return "let %s = %s" % (_pat_named(n["pat"], names), r(n["init"]))
    if k == "If":
        s = "if %s %s" % (r(n["cond"]), r(n["then"]))
        if n.get("else") is not None:
            s += " else %s" % r(n["else"])
        return s
    if k == "Match":
        arms = []
        for a in n["arms"]:
            g = " if %s" % r(a["guard"]) if a.get("guard") is not None else ""
            arms.append("%s%s => %s" % (_pat_named(a["pat"], names), g, r(a["body"])))
        return "match %s {%s}" % (r(n["scrut"]), " | ".join(arms))
    if k == "Closure":
        ps = ", ".join(_pat_named(p, names) for p in n.get("params", []))
        return "|%s| %s" % (ps, r(n["body"]))
    if k == "Assign":
        return "%s = %s" % (r(n["l"]), r(n["r"]))
    if k == "AssignOp":
        return "%s %s %s" % (r(n["l"]), n.get("op"), r(n["r"]))
    if k in ("Ret", "Break"):
        return "%s %s" % (k.lower(), r(n.get("e")) if n.get("e") else "")
    if k in ("Array", "Tup"):
        return "[%s]" % ", ".join(r(x) for x in n["items"])
    if k == "Cast":
        return "%s as %s" % (r(n["e"]), short_path(n.get("ty")))
    if k == "Index":
        return "%s[%s]" % (r(n["e"]), r(n["i"]))
    if k == "Loop":
        return "loop %s" % r(n["body"])
    return k or "?"


def _pat_named(p, names):
    k = p.get("k")
    if k == "PBind":
        if names is not None:
            nm = names.setdefault(p["id"], "v%d" % len(names))
        else:
            nm = p["name"]
        return nm + ("@" + _pat_named(p["sub"], names) if p.get("sub") else "")
    if k in ("PTupleStruct", "PStruct"):
        name = p.get("variant") or short_path(p.get("adt"))
        inner = [_pat_named(x, names) for x in p.get("pats", [])] + ["%s: %s" % (f["name"], _pat_named(f["p"], names)) for f in p.get("fields", [])]
        return "%s(%s)" % (name, ", ".join(inner))
    if k == "POr":
        return " | ".join(sorted(_pat_named(x, names) for x in p["pats"]))
    if k in ("PRef", "PBox", "PDeref"):
        return _pat_named(p["p"], names)
    if k == "PTuple":
        return "(%s)" % ", ".join(_pat_named(x, names) for x in p["pats"])
    if k == "PSlice":
        parts = [_pat_named(x, names) for x in p.get("before", [])]
        if p.get("mid") is not None:
            parts.append("..")
        parts += [_pat_named(x, names) for x in p.get("after", [])]
        return "[%s]" % ", ".join(parts)
    return pat_str(p)
