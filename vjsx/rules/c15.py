"""C15 — the vnode factory is createVNode unless a pragma names another."""
import re
from ..facts import AST, VISITOR_CRATE, walk, strip_transparent, field_path
from ..engine import Rule
from ..cfg import calls, callee_name, place_of, op_const
from . import common as C
from .mirflow import self_field_of
from .influence import flow_of, controlling_deps
from .state import access_index, root_path, first_field
from . import c07, c10


def r15_1(ctx):
    r = Rule("R15.1", "precedence: the comment pragma is consulted before the option, the option before createVNode",
             "a swapped precedence makes the @jsx annotation lose against the option")
    pf = C.role_or_fail(ctx, r, "pragma_fn")
    if not pf:
        return r
    r.saw(pf["path"])
    found = False
    for mb in C.family(ctx, pf):
        fl = flow_of(ctx, mb)
        for i, t in calls(mb):
            if callee_name(t).endswith("Option::<T>::or") or callee_name(t).endswith("Option::<T>::or_else"):
                a = {first_field(f) + ("." + ".".join(f.strip(".").split(".")[1:]) if len(f.strip(".").split(".")) > 1 else "") for f in self_field_of(fl.op_sources(t["args"][0]))}
                b = set()
                if callee_name(t).endswith("::or"):
                    b = {first_field(f) + ("." + ".".join(f.strip(".").split(".")[1:]) if len(f.strip(".").split(".")) > 1 else "") for f in self_field_of(fl.op_sources(t["args"][1]))}
                a = {re.sub(r"as \w+", "", x).rstrip(".") for x in a}
                b = {re.sub(r"as \w+", "", x).rstrip(".") for x in b}
                found = True
                ok = ("pragma" in a) and ("options.pragma" in b) and "options.pragma" not in a
                r.ob("pragma lookup order", ok, C.mloc(mb, t),
                     "Option::or(receiver = self.%s, fallback = self.%s)" % ("/".join(sorted(a)), "/".join(sorted(b))) +
                     ("" if ok else " — the comment pragma must be the receiver and options.pragma the fallback"))
    # nothing but the comment pragma, the option and the createVNode import decides the factory
    root = C.mir_of(ctx, pf)
    if root is not None:
        fl0 = flow_of(ctx, root)
        srcs = fl0.sources(0)
        others = sorted({first_field(f) for f in self_field_of(srcs)} - {"pragma", "options", "vue_imports", ""})
        r.ob("the factory comes from the comment pragma, the option or the createVNode import only", not others, C.mloc(root, root),
             "result provenance: self.pragma / self.options.pragma / import" if not others else
             "the result can also come from self.%s, outside the precedence comment > option > createVNode" % ", self.".join(others))
    if not found:
        # other shapes: the first branch on a pragma source must be the comment pragma
        hb = pf
        order = []
        for n in walk(hb["body"]):
            fp = field_path(strip_transparent(n)) if n.get("k") == "Field" else None
            if fp in ("self.pragma", "self.options.pragma"):
                order.append(fp)
        if order and order[0] == "self.pragma" and "self.options.pragma" in order:
            r.ob("pragma lookup order", None, C.mloc(hb, hb), "no Option::or chain; textual order self.pragma then options.pragma (not decided)")
        else:
            r.ob("pragma lookup order", False, C.mloc(hb, hb), "the pragma function does not consult self.pragma before self.options.pragma (%s)" % order)
    return r


def r15_2(ctx):
    r = Rule("R15.2", "createVNode is imported lazily: only in the fallback taken when no pragma is set",
             "an eager import adds an unused `createVNode` import whenever a pragma is configured")
    imp = C.role_or_fail(ctx, r, "import_fn")
    if not imp:
        return r
    nodes, edges = C.call_graph(ctx)
    sites = []
    for k, b in nodes.items():
        if k[0] != VISITOR_CRATE:
            continue
        for i, t in calls(b):
            if callee_name(t) == imp["path"] and len(t["args"]) > 1:
                c = op_const(t["args"][1]) or {}
                if c.get("str") == "createVNode":
                    sites.append((b, i, t))
    if not sites:
        r.ob("createVNode import site exists", False, "-", "no call of the import function with the constant \"createVNode\"")
        return r
    for b, i, t in sites:
        r.saw(b["path"])
        key = "%s imports createVNode lazily" % root_path(b)
        ok = False
        detail = ""
        if b["dk"] == "Closure":
            parent = ctx.facts.mir_by_path.get((b["crate"], b.get("direct_parent") or b["parent"])) or ctx.facts.mir_by_path.get((b["crate"], b["parent"]))
            lazy = False
            if parent is not None:
                # the closure value must be passed to a lazy Option combinator whose receiver depends on the pragma sources
                clos_locals = set()
                for blk in parent["blocks"]:
                    for s in blk["stmts"]:
                        if s["k"] == "assign" and s["rv"].get("rk") == "agg" and s["rv"].get("def") == b["path"]:
                            clos_locals.add(s["lhs"]["l"])
                fl = flow_of(ctx, parent)
                for j, tt in calls(parent):
                    if re.search(r"Option::<T>::(unwrap_or_else|or_else|map_or_else|get_or_insert_with)$", callee_name(tt)):
                        if any((place_of(a) or {}).get("l") in clos_locals for a in tt["args"]):
                            deps = {first_field(f) for f in self_field_of(fl.op_deps(tt["args"][0]))}
                            if "pragma" in deps:
                                lazy = True
                                detail = "closure passed to %s on a value derived from self.pragma / options.pragma" % callee_name(tt).split("::")[-1]
            ok = lazy
            if not lazy:
                detail = "the closure calling import(\"createVNode\") is not the lazy fallback of the pragma lookup"
        else:
            deps = controlling_deps(ctx, b, i)
            fields = {first_field(f) for f in self_field_of(deps)}
            ok = "pragma" in fields
            detail = "control-dependent on the pragma lookup" if ok else "import(\"createVNode\") runs unconditionally (eager): with a pragma the import is added but unused"
        r.ob(key, ok, C.mloc(b, t), detail)
    return r


def r15_6(ctx):
    r = Rule("R15.6", "the pragma is called as the identifier the annotation names: it is built as a plain (unmarked) identifier, not as a fresh private one",
             "a private identifier is a new binding: the user's `h` gets renamed by hygiene and the calls go to an unbound name")
    pf = C.role_or_fail(ctx, r, "pragma_fn")
    if not pf:
        return r
    r.saw(pf["path"])
    # the comment scan is independent of the option: the annotation takes precedence over it (R15.1), so the scan cannot be skipped for it
    ps_ = C.role(ctx, "pragma_search")
    if ps_ is not None:
        reads_opt = [n for n in walk(ps_["body"]) if n.get("k") == "Field" and (field_path(n) or "").startswith("self.options.pragma")]
        r.ob("the comment scan does not consult the `pragma` option", not reads_opt, C.mloc(ps_, reads_opt[0]) if reads_opt else C.mloc(ps_, ps_),
             "no read of options.pragma" if not reads_opt else "the scan reads options.pragma: with the option set an `@jsx` annotation is no longer looked for, although it takes precedence")
    priv = [n for n in walk(pf["body"]) if "private_ident" in (n.get("mac") or [])]
    fresh = [n for n in walk(pf["body"]) if n.get("k") in ("Call", "MethodCall") and (n.get("callee") or "").endswith(("Mark::new", "Mark::fresh", "SyntaxContext::apply_mark"))]
    ok = not priv and not fresh
    r.ob("pragma function builds no private / freshly marked identifier itself", ok, C.mloc(pf, (priv or fresh or [pf])[0]),
         "quote_ident! (empty syntax context) or the import registry" if ok else "`private_ident!` / a fresh mark is applied to the pragma name")
    return r


def r15_3(ctx):
    r = Rule("R15.3", "one factory: element and fragment builders both take their callee from the pragma function",
             "a builder that bypasses the pragma function ignores the pragma")
    pf = C.role_or_fail(ctx, r, "pragma_fn")
    if not pf:
        return r
    for role in ("element_builder", "fragment_builder"):
        b = C.role_or_fail(ctx, r, role)
        if not b:
            continue
        r.saw(b["path"])
        ok = False
        n_calls = 0
        for n in walk(b["body"]):
            if n.get("k") == "Struct" and n.get("adt") == AST + "CallExpr":
                callee = {f["name"]: f["e"] for f in n["fields"]}.get("callee")
                args = {f["name"]: f["e"] for f in n["fields"]}.get("args")
                if callee is None:
                    continue
                uses_pragma = any(x.get("k") in ("Call", "MethodCall") and x.get("callee") == pf["path"] for x in walk(callee))
                # the vnode call is the CallExpr whose args is the 3-element vector / local built from it
                n_calls += 1
                if uses_pragma:
                    ok = True
        r.ob("%s calls the pragma function for its callee" % role, ok, C.mloc(b, b), "%d CallExpr literal(s); %s" % (n_calls, "callee built from the pragma function" if ok else "no CallExpr takes its callee from the pragma function"))
    return r


def r15_5(ctx):
    r = Rule("R15.5", "the comment pragma is a module-wide fact: written only by the pre-pass before the traversal (P3)",
             "a pragma picked up during the traversal applies only to later statements")
    idx = access_index(ctx)
    acc = [a for a in idx.get("pragma", []) if not root_path(a["body"]).endswith("::new")]
    c10._check_p3(ctx, r, "pragma", acc)
    # the pre-pass looks at the module head and at every top-level item
    ps = C.role(ctx, "pragma_search")
    mm = [hb for hb in C.visitor_methods(ctx) if c10._is_root_method(hb)]
    if ps and mm:
        hb = mm[0]
        direct = 0
        in_iter = 0
        skipped = None
        for n in walk(hb["body"]):
            if n.get("k") == "MethodCall" and n.get("callee") == ps["path"]:
                direct += 1
        # a call inside a closure passed to for_each over module.body
        for n in walk(hb["body"]):
            if n.get("k") == "MethodCall" and n["method"] in ("for_each", "map", "any", "find_map", "all") and n["args"] and n["args"][0].get("k") == "Closure":
                if any(x.get("k") == "MethodCall" and x.get("callee") == ps["path"] for x in walk(n["args"][0])):
                    base = n["recv"]
                    skipping = []
                    while strip_transparent(base).get("k") == "MethodCall":
                        if strip_transparent(base)["method"] in ("filter", "filter_map", "skip", "skip_while", "take", "take_while", "step_by", "flat_map", "map_while"):
                            skipping.append(strip_transparent(base)["method"])
                        base = strip_transparent(base)["recv"]
                    if (field_path(strip_transparent(base)) or "").endswith(".body"):
                        if skipping:
                            skipped = skipping
                        else:
                            in_iter += 1
        # ... or in the body of a `for` loop over module.body
        from .c16 import _is_for_loop
        for n in walk(hb["body"]):
            if _is_for_loop(n) and any(x.get("k") == "MethodCall" and x.get("callee") == ps["path"] for x in walk(n["arms"][0]["body"])):
                it = strip_transparent(n["scrut"])["args"][0] if strip_transparent(n["scrut"]).get("args") else None
                base = it
                while base is not None and strip_transparent(base).get("k") == "MethodCall":
                    base = strip_transparent(base)["recv"]
                if base is not None and (field_path(strip_transparent(base)) or "").endswith(".body"):
                    in_iter += 1
        r.ob("pre-pass scans the module head and every top-level item", direct >= 2 and in_iter >= 1, C.mloc(hb, hb),
             "%d call(s) of the pragma search, %d inside an iteration over module.body" % (direct, in_iter) +
             ("; the iteration drops items by %s(): an annotation before an `export` / `import` is not seen" % skipped[0] if skipped else ""))
    return r


def r15_4(ctx):
    r = Rule("R15.4", "comment text after `@jsx` needs a delimiter and becomes the pragma only if it is one identifier",
             "`@jsxImportSource` / `@jsxRuntime` / `@jsxFrag` or trailing words would otherwise be taken as the factory name")
    ps = C.role_or_fail(ctx, r, "pragma_search")
    if not ps:
        return r
    r.saw(ps["path"])
    # (a) validated identifier: the R07.2 instance for the pragma write
    res = c07.r07_2(ctx)
    mine = [o for o in res.obs if "get_pragma" in o["key"] or "self.pragma" in o["key"]]
    for o in mine:
        r.ob("pragma text is validated (R07.2 instance): " + o["key"][-60:], o["ok"], o["loc"], o["detail"])
    # (b) delimiter after the literal "@jsx": the value obtained by strip_prefix("@jsx") must pass a test on its first character
    ok = False
    where = None
    for n in walk(ps["body"]):
        if n.get("k") == "MethodCall" and n["method"] == "strip_prefix" and n["args"]:
            a = strip_transparent(n["args"][0])
            if a.get("k") == "Lit" and a.get("v") == "@jsx":
                where = n
                # walk up the method chain: some later `.filter(|rest| rest.starts_with(..whitespace..))` or split on whitespace + equality
                chain = _chain_after(ps["body"], n)
                for m in chain:
                    if m["method"] == "filter" and m["args"] and m["args"][0].get("k") == "Closure":
                        for x in walk(m["args"][0]["body"]):
                            if x.get("k") == "MethodCall" and x["method"] in ("starts_with",) and x["args"]:
                                arg = strip_transparent(x["args"][0])
                                if (arg.get("k") == "Path" and "is_whitespace" in (arg["res"].get("path") or "")) or (arg.get("k") == "Lit" and arg.get("v") in (" ", "\t")):
                                    ok = True
    # (c) the name is the first whitespace-delimited token of the remainder (words after it are commentary, as in Babel's /@jsx\s+([^\s]+)/)
    if where is not None:
        first_tok = False
        for m in _chain_after(ps["body"], where):
            for x in walk(m):
                if x.get("k") == "MethodCall" and x["method"] == "next" and strip_transparent(x["recv"]).get("k") == "MethodCall" \
                        and strip_transparent(x["recv"])["method"] in ("split_whitespace", "split_ascii_whitespace", "split"):
                    first_tok = True
                if x.get("k") == "MethodCall" and x["method"] == "split_once":
                    first_tok = True
        r.ob("the pragma is the first whitespace-delimited token after `@jsx`", first_tok, C.mloc(ps, where),
             "split_whitespace().next()" if first_tok else "the whole remainder of the comment is taken: `@jsx h -- note` is then not an identifier and the annotation is ignored")
    # (d) the annotation is looked for on every line of the comment (block comments usually carry it on a line of its own)
    if where is not None:
        from .hirflow import HirIndex
        idxp = HirIndex(ps)
        per_line = False
        for p in idxp.parents(where):
            if p.get("k") == "Closure":
                mc = idxp.parent.get(id(p))
                if mc is not None and mc.get("k") == "MethodCall":
                    base = mc["recv"]
                    while strip_transparent(base).get("k") == "MethodCall":
                        if strip_transparent(base)["method"] in ("lines", "split", "split_terminator", "split_inclusive"):
                            per_line = True
                        base = strip_transparent(base)["recv"]
        r.ob("the annotation is searched on every line of a comment", per_line, C.mloc(ps, where),
             "the match runs inside an iteration over the comment's lines" if per_line else "only the beginning of each comment is inspected: `/**\\n * @jsx h\\n */` is ignored")
    if where is None:
        r.ob("`@jsx` prefix match is followed by a delimiter test", None, C.mloc(ps, ps), "no strip_prefix(\"@jsx\") found (different matching strategy: not decided)")
    else:
        r.ob("`@jsx` prefix match is followed by a delimiter test", ok, C.mloc(ps, where),
             "the remainder must start with whitespace" if ok else "text right after `@jsx` is not required to start with a delimiter: `@jsxImportSource x` / `@jsxRuntime` are taken as pragmas")
    return r


def _chain_after(root, node):
    """method calls whose receiver chain contains `node`"""
    out = []
    for n in walk(root):
        if n.get("k") == "MethodCall":
            x = n["recv"]
            while True:
                if x is node:
                    out.append(n)
                    break
                xs = x
                if xs.get("k") == "MethodCall":
                    x = xs["recv"]
                else:
                    break
    return out


def rules(ctx):
    return [__import__('vjsx.rules.c10', fromlist=['x']).field_ratchet('the factory must not depend on state other than the module-wide pragma'), r15_1, r15_2, r15_3, r15_6, r15_4, r15_5]


EXPLANATION = (
    "R15.1: in the pragma function the receiver of Option::or derives from self.pragma (comment) and its argument from options.pragma. "
    "R15.2: the only call of the import function with the constant \"createVNode\" sits in the closure passed to the lazy fallback of that "
    "chain. R15.3: both vnode builders build their CallExpr callee from the pragma function. R15.4: the text after `@jsx` must start with "
    "whitespace and the stored pragma is validated as an identifier (R07.2 instance). R15.5: self.pragma is written only by the pre-pass, "
    "whose call sites dominate the module traversal and scan the head and every top-level item."
)
ASSUMPTIONS = ["which comments SWC attaches to which position (leading comments of module / items) is not analysed",
               "options.pragma is configuration and documented to be an identifier"]
TRUSTED = ["rustc nightly HIR/MIR", "swc comments API"]
LEVEL = "other"
LEVEL_TEXT = ("Clause-level structural checks on the resolved program: precedence, laziness of the createVNode import, single factory, "
              "delimiter + identifier validation of the comment pragma, and module-wide (pre-pass) discipline of the pragma state.")
LEVEL_NOTE = "Trusted: rustc HIR/MIR, SWC comment attachment. Not decided: SWC's attachment of comments 'inside functions'."
TECHNIQUE = "MIR provenance of Option::or operands, closure-to-lazy-combinator linkage, HIR template check, P3 dominance"
