"""Thorough tier: positive controls. Every zero-count rule must fire on /verif/controls (compiled by the same driver),
otherwise a silent extractor / pattern regression would make the rule pass vacuously forever."""
import re
from ..facts import Facts, VISITOR_CRATE
from ..engine import Rule, Ctx
from ..cfg import calls, callee_name
from .. import extract


def _cctx(ctx):
    if "controls_ctx" not in ctx.cache:
        d = extract.ensure_controls()
        ctx.cache["controls_ctx"] = Ctx(Facts(d, rename={"vjsx_controls": VISITOR_CRATE}), "quick")
    return ctx.cache["controls_ctx"]


def _fired(rule, fn_names):
    out = {}
    for f in fn_names:
        out[f] = [o for o in rule.obs if o["ok"] is False and (f in o["key"] or f in o["detail"])]
    return out


def control_rule(which):
    """which: list of (label, rule function, control function names that must be reported)"""
    def run(ctx):
        r = Rule("CTRL", "positive controls: the zero-count rules fire on /verif/controls", "a rule that cannot fire proves nothing")
        c2 = _cctx(ctx)
        for label, fn, names in which:
            res = fn(c2)
            hit = _fired(res, names)
            for n in names:
                r.ob("%s reports control `%s`" % (label, n), bool(hit[n]), "controls/src/lib.rs", (hit[n][0]["detail"][:120] if hit[n] else "NOT reported: the rule's pattern no longer matches this construct"))
        return r
    run.__name__ = "controls"
    return run


def callee_pattern_control(label, regex, names):
    """for rules that scan role-selected bodies: check that the callee pattern matches the control construct"""
    def run(ctx):
        r = Rule("CTRL", "positive controls: callee patterns match /verif/controls", "a pattern that matches nothing proves nothing")
        c2 = _cctx(ctx)
        for n in names:
            ok = False
            what = ""
            for b in c2.facts.mir:
                if b["path"].split("::")[0] == n or b["path"] == n or b["path"].startswith(n + "::"):
                    for i, t in calls(b):
                        if regex.search(callee_name(t)):
                            ok = True
                            what = callee_name(t)
            r.ob("%s pattern matches control `%s`" % (label, n), ok, "controls/src/lib.rs", what or "no callee of the control function matches the rule's pattern")
        return r
    run.__name__ = "controls_pattern"
    return run
