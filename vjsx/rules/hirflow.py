"""Def-use over the typed HIR tree of one fn (closures included): where does a local come from,
what is known to be true at a node (enclosing if / match-guard conditions)."""
from ..facts import walk, walk_with_parents, children, strip_transparent, const_str


class HirIndex:
    """index of one HIR body: bindings, parents"""

    def __init__(self, body):
        self.body = body
        self.parent = {}          # id(node) -> parent node
        self.binding = {}         # local id -> dict(kind=..., ...)
        self.nodes = []
        self._index(body)

    def _index(self, body):
        for i, p in enumerate(body.get("params", [])):
            self._bind_pat(p, {"kind": "param", "index": i, "fn": body, "closure": None}, ())
        for n, ps in walk_with_parents(body["body"]):
            self.nodes.append(n)
            if ps:
                self.parent[id(n)] = ps[-1]
            k = n.get("k")
            if k == "Let":
                self._bind_pat(n["pat"], {"kind": "let", "init": n.get("init"), "stmt": n}, ())
            elif k == "LetExpr":
                self._bind_pat(n["pat"], {"kind": "let", "init": n.get("init"), "stmt": n}, ())
            elif k == "Match":
                for arm in n["arms"]:
                    self._bind_pat(arm["pat"], {"kind": "let", "init": n["scrut"], "stmt": arm}, ())
            elif k == "Closure":
                for i, p in enumerate(n.get("params", [])):
                    self._bind_pat(p, {"kind": "param", "index": i, "fn": None, "closure": n}, ())

    def _bind_pat(self, pat, origin, path):
        """record every binding inside pat with the destructuring path from the matched value"""
        k = pat.get("k")
        if k == "PBind":
            o = dict(origin)
            o["path"] = path
            o["pat"] = pat
            self.binding[pat["id"]] = o
            if pat.get("sub"):
                self._bind_pat(pat["sub"], origin, path)
        elif k == "PStruct":
            for f in pat["fields"]:
                self._bind_pat(f["p"], origin, path + (("field", pat.get("adt"), pat.get("variant"), f["name"]),))
        elif k == "PTupleStruct":
            for i, p in enumerate(pat["pats"]):
                self._bind_pat(p, origin, path + (("tfield", pat.get("adt"), pat.get("variant"), i),))
        elif k == "PTuple":
            for i, p in enumerate(pat["pats"]):
                self._bind_pat(p, origin, path + (("tuple", i),))
        elif k in ("PRef", "PBox", "PDeref"):
            self._bind_pat(pat["p"], origin, path)
        elif k == "POr":
            for p in pat["pats"]:
                self._bind_pat(p, origin, path)
        elif k == "PSlice":
            for i, p in enumerate(pat.get("before", [])):
                self._bind_pat(p, origin, path + (("elem", i),))
            if pat.get("mid"):
                self._bind_pat(pat["mid"], origin, path + (("rest",),))
            for i, p in enumerate(pat.get("after", [])):
                self._bind_pat(p, origin, path + (("elem_end", i),))
        elif k == "PGuard":
            self._bind_pat(pat["p"], origin, path)

    def parents(self, node):
        out = []
        n = node
        while id(n) in self.parent:
            n = self.parent[id(n)]
            out.append(n)
        return out

    def enclosing_closure(self, node):
        for p in self.parents(node):
            if p.get("k") == "Closure":
                return p
        return None

    # ---- facts known true at a node ------------------------------------------------
    def known_true(self, node):
        """list of expression nodes known to evaluate to true when `node` executes
        (then-branches: conjuncts; else-branches: negated disjuncts; match guards)"""
        out = []
        child = node
        for p in self.parents(node):
            k = p.get("k")
            if k == "If":
                if child is p.get("then"):
                    out += conjuncts(p["cond"])
                elif child is p.get("else"):
                    out += [("not", c) for c in disjuncts(p["cond"])]
            elif k == "Arm":
                if child is p.get("body") and p.get("guard") is not None:
                    out += conjuncts(p["guard"])
            child = p
        # early returns: `if c { ...; return }` before the node gives !c afterwards
        for st in self.preceding_stmts(node):
            if st.get("k") == "If" and st.get("else") is None and _diverges(st["then"]):
                out += [("not", c) for c in disjuncts(st["cond"])]
        # normalise ("not", Unary !x) -> x
        res = []
        for c in out:
            if isinstance(c, tuple):
                inner = c[1]
                if inner.get("k") == "Unary" and inner.get("op") == "!":
                    res += conjuncts(inner["e"])
                else:
                    res.append(c)
            else:
                res.append(c)
        return res

    def preceding_stmts(self, node):
        """statements that run before `node` in every enclosing block (same blocks only)"""
        out = []
        child = node
        for p in self.parents(node):
            if p.get("k") == "Block":
                for s in p["stmts"]:
                    if s is child:
                        break
                    out.append(s)
            child = p
        return out


def _diverges(block):
    """block certainly ends in return / break / continue / panic"""
    b = block
    while b.get("k") == "Block":
        if b.get("expr") is not None:
            b = b["expr"]
        elif b.get("stmts"):
            b = b["stmts"][-1]
        else:
            return False
    if b.get("k") in ("Ret", "Break", "Continue"):
        return True
    if b.get("k") == "Call" and "panic" in (b.get("callee") or ""):
        return True
    return False


def conjuncts(e):
    e = _peel(e)
    if e.get("k") == "Binary" and e.get("op") == "&&":
        return conjuncts(e["l"]) + conjuncts(e["r"])
    return [e]


def disjuncts(e):
    e = _peel(e)
    if e.get("k") == "Binary" and e.get("op") == "||":
        return disjuncts(e["l"]) + disjuncts(e["r"])
    return [e]


def _peel(e):
    while e.get("k") == "Block" and not e.get("stmts") and e.get("expr") is not None:
        e = e["expr"]
    return e


def calls_in(node):
    for n in walk(node):
        if n.get("k") in ("Call", "MethodCall"):
            yield n


def same_local(a, b):
    from ..facts import local_of
    la, lb = local_of(a), local_of(b)
    return la is not None and la == lb
