"""Index of all accesses to VueJsxTransformVisitor fields in MIR (who reads / writes what, where)."""
import re
from ..facts import VISITOR_CRATE
from ..cfg import calls, callee_name, place_of
from .mirflow import self_field_of
from .influence import flow_of
from . import common as C


def is_visitor_body(b):
    if b["dk"] == "Closure":
        return any(re.match(r"\*?\(?\*?self\b", u["place"].replace(" ", "")) for u in b.get("upvars", []))
    if b["arg_count"] >= 1 and len(b["locals"]) > 1:
        return "VueJsxTransformVisitor<C>" in b["locals"][1]["ty"]
    return False


def _places(o):
    if isinstance(o, dict):
        if "l" in o and "s" in o:
            yield o
            return
        for v in o.values():
            yield from _places(v)
    elif isinstance(o, list):
        for v in o:
            yield from _places(v)


def first_field(path):
    p = path.strip(".")
    p = re.sub(r"as \w+", "", p)
    return p.split(".")[0] if p else ""


def access_index(ctx):
    """field -> list of access dicts {body, bb, kind, callee, node, mut, path}
    kind: 'store' | 'call' (passed by reference to a callee) | 'read' (moved/copied/borrowed into a local)"""
    if "state_index" in ctx.cache:
        return ctx.cache["state_index"]
    idx = {}
    for b in ctx.facts.mir:
        if b["crate"] != VISITOR_CRATE or not is_visitor_body(b) or b.get("analysed_inlined"):
            continue
        fl = flow_of(ctx, b)
        for blk in b["blocks"]:
            if blk.get("cleanup"):
                continue
            for s in blk["stmts"]:
                if s["k"] != "assign":
                    continue
                # store?
                lf = self_field_of(fl.place_sources(s["lhs"])) if ("*" in (s["lhs"].get("p") or []) or s["lhs"].get("upvar")) else set()
                for f in lf:
                    ff = first_field(f)
                    if ff:
                        idx.setdefault(ff, []).append({"body": b, "bb": blk["i"], "kind": "store", "node": s, "path": f, "mut": True})
                # a borrow taken only to build a closure environment is a capture: the closure body's accesses are indexed on their own
                if s["rv"].get("rk") == "ref" and _only_feeds_closure(b, s["lhs"]["l"]):
                    continue
                # read: rvalue mentions a self field place directly
                for p in _places(s["rv"]):
                    if "*" in (p.get("p") or []) or p.get("upvar"):
                        for f in self_field_of(fl.place_sources(p)):
                            ff = first_field(f)
                            if ff:
                                idx.setdefault(ff, []).append({"body": b, "bb": blk["i"], "kind": "read", "node": s, "path": f,
                                                               "mut": bool(s["rv"].get("mut"))})
            t = blk.get("term") or {}
            if t.get("k") == "call":
                for i, (a, ty) in enumerate(zip(t["args"], t.get("arg_tys", []))):
                    if ty.startswith("{closure@"):
                        continue    # a closure passed by value: its captures are accounted for in its own body
                    srcs = fl.op_sources(a)
                    if ty.startswith("&mut ") and _borrows_owned_local(fl, a):
                        # `&mut local` where the local is a value of its own (built from copies of self's fields or not): the callee
                        # can change the local, not the visitor
                        continue
                    for f in self_field_of(srcs):
                        ff = first_field(f)
                        if ff:
                            idx.setdefault(ff, []).append({"body": b, "bb": blk["i"], "kind": "call", "node": t, "path": f,
                                                           "callee": callee_name(t), "argi": i, "arg_ty": ty, "mut": _is_mut_ref(ty)})
            elif t.get("k") == "switch":
                for f in self_field_of(fl.op_sources(t["discr"])):
                    ff = first_field(f)
                    if ff:
                        idx.setdefault(ff, []).append({"body": b, "bb": blk["i"], "kind": "switch", "node": t, "path": f, "mut": False})
    ctx.cache["state_index"] = idx
    return idx


def _borrows_owned_local(fl, op):
    """the reference operand points into a local of this body that is a value of its own (not reached through a parameter / upvar)"""
    p = place_of(op)
    return p is not None and not p.get("p") and not p.get("upvar") and _ref_root_is_owned(fl, p["l"], set())


def _ref_root_is_owned(fl, local, seen):
    if local in seen or 1 <= local <= fl.nargs:
        return False
    seen.add(local)
    defs = fl.defs.get(local, [])
    if len(defs) != 1 or defs[0][0] != "stmt" or defs[0][2]["lhs"].get("p"):
        return False
    rv = defs[0][2]["rv"]
    if rv.get("rk") == "use":
        q = place_of(rv.get("op"))
        return q is not None and not q.get("p") and not q.get("upvar") and _ref_root_is_owned(fl, q["l"], seen)
    if rv.get("rk") == "ref":
        q = rv["place"]
        if q.get("upvar"):
            return False
        projs = q.get("p") or []
        if projs and projs[0] == "*":
            # re-borrow through a reference held in another local
            return "*" not in projs[1:] and _ref_root_is_owned(fl, q["l"], seen)
        if "*" in projs:
            return False
        return not (1 <= q["l"] <= fl.nargs)
    return False


def _only_feeds_closure(b, local):
    """the local is used only as an operand of closure aggregates"""
    used_in_closure = False
    for blk in b["blocks"]:
        for s in blk["stmts"]:
            if s["k"] != "assign":
                continue
            rv = s["rv"]
            mentions = any(p.get("l") == local for p in _places(rv))
            if mentions:
                if rv.get("rk") == "agg" and rv.get("agg") == "closure":
                    used_in_closure = True
                else:
                    return False
        t = blk.get("term") or {}
        if t.get("k") == "call" and any(p.get("l") == local for p in _places(t["args"])):
            return False
        if t.get("k") == "switch" and any(p.get("l") == local for p in _places(t["discr"])):
            return False
    return used_in_closure


def _is_mut_ref(ty):
    if not ty.startswith("&mut "):
        return False
    pointee = ty[5:]
    # a `&mut` iterator over shared data mutates the iterator, not the data
    return not pointee.startswith(("core::slice::iter::Iter<", "core::iter::", "core::str::", "alloc::collections::btree::map::Iter<",
                                   "indexmap::map::iter::Iter<", "indexmap::set::iter::Iter<"))


def root_path(b):
    return b["parent"] if b["dk"] == "Closure" else b["path"]
