"""C02 — children and JSX text follow the JSX whitespace and child-list rules (structural clauses)."""
import re
from ..facts import AST, VISITOR_CRATE, walk, strip_transparent, field_path, const_str, local_of
from ..engine import Rule
from ..cfg import calls, callee_name
from . import common as C
from .hirflow import HirIndex, conjuncts
from .hirtext import expr_str, pat_str
from . import c01, c11

UNICODE_WS_APIS = re.compile(r"core::str::<impl str>::(lines|trim|trim_start|trim_end|trim_left|trim_right|split_whitespace|split_ascii_whitespace|trim_ascii|trim_ascii_start|trim_ascii_end)$|char::methods::<impl char>::is_whitespace$")


def r02_1(ctx):
    r = Rule("R02.1", "text cleaning API contract: no std API whose contract contradicts the JSX rule (str::lines misses a lone CR; str::trim* strips every Unicode White_Space incl. NBSP); CR, LF and TAB are handled explicitly",
             "lines()/trim() silently change non-breaking spaces and CR-separated lines")
    tc = C.role_or_fail(ctx, r, "text_cleaner")
    if not tc:
        return r
    fam = C.family(ctx, tc)
    # the function that turns a JSX text node into a vnode decides what text is kept: it is held to the same contract
    tf_ = C.role(ctx, "jsx_text_fn")
    if tf_ is not None:
        fam = list(fam) + list(C.family(ctx, tf_))
    hits = 0
    n_calls = 0
    for mb in fam:
        r.saw(mb["path"])
        for i, t in calls(mb):
            n_calls += 1
            name = callee_name(t)
            if UNICODE_WS_APIS.search(name):
                hits += 1
                r.ob("%s calls %s" % (mb["path"], name.split("::")[-1]), False, C.mloc(mb, t),
                     "%s: its notion of line break / white space is not the JSX one" % name.split("::")[-1])
    r.ob("scan of the text cleaner for Unicode-whitespace / lines() APIs", True, "-", "%d call(s) in %d bodies, %d hit(s)" % (n_calls, len(fam), hits))
    # the characters the rule is about must be mentioned: '\r', '\n', '\t', ' '
    chars = set()
    for n in walk(tc["body"]):
        if n.get("k") == "Lit" and n.get("lit") == "char":
            chars.add(n["v"])
        if n.get("k") == "Lit" and n.get("lit") == "str" and n["v"] in ("\r\n", "\n", "\r", "\t", " "):
            chars |= set(n["v"])
    for ch, name in (("\n", "LF"), ("\r", "CR"), ("\t", "TAB"), (" ", "space")):
        r.ob("the text cleaner handles %s explicitly" % name, ch in chars, C.mloc(tc, tc), "character literal present" if ch in chars else "%s never appears in the cleaner: it cannot be treated as the JSX rule requires" % name)
    # tabs are *converted* to spaces (not merely recognised as blank)
    mapped = False
    for n in walk(tc["body"]):
        if n.get("k") == "MethodCall" and n["method"] in ("replace", "replacen") and len(n["args"]) >= 2:
            a, b2 = strip_transparent(n["args"][0]), strip_transparent(n["args"][1])
            if a.get("k") == "Lit" and a.get("v") == "\t" and b2.get("k") == "Lit" and b2.get("v") == " ":
                mapped = True
        if n.get("k") == "Arm" and "'\\t'" in pat_str(n["pat"]) and "' '" in expr_str(n["body"]):
            mapped = True
    r.ob("tabs are converted to spaces", mapped, C.mloc(tc, tc), "replace('\\t', \" \")" if mapped else "a tab that survives trimming stays a tab: JSX text treats tabs as spaces")
    # trimming is by the space character only
    idx_tc = HirIndex(tc)
    for n in walk(tc["body"]):
        if n.get("k") == "MethodCall" and n["method"] in ("trim_start_matches", "trim_end_matches", "trim_matches") and n["args"]:
            a = strip_transparent(n["args"][0])
            ok = a.get("k") == "Lit" and a.get("v") == " "
            r.ob("%s strips spaces only" % n["method"], ok, C.mloc(tc, n), expr_str(n["args"][0])[:40])
            # ... and it works on the text in which tabs are already spaces (else a tab next to a line break survives the trimming)
            idx = idx_tc
            src_ok = False
            cur = n["recv"]
            for _ in range(8):
                cs = strip_transparent(cur)
                if any(x.get("k") == "MethodCall" and x["method"] in ("replace", "replacen") and x["args"] and strip_transparent(x["args"][0]).get("v") == "\t" for x in walk(cs)):
                    src_ok = True
                    break
                lo = local_of(cs)
                bnd = idx.binding.get(lo[1]) if lo else None
                if not bnd:
                    break
                # a `mut` local re-assigned from itself (`line = line.trim_..`) keeps its first definition as origin
                if bnd.get("init") is None:
                    break
                cur = bnd["init"]
            r.ob("%s runs on the text whose tabs were converted" % n["method"], src_ok, C.mloc(tc, n),
                 "receiver derives from replace('\\t', \" \")" if src_ok else "the trimmed value does not come from the tab-converted text: tabs beside a line break are kept (and later turned into spaces)")
    # used for JSX text and string attribute values
    users = sorted({b["name"] for b in ctx.facts.hir if b["crate"] == VISITOR_CRATE and not b.get("mac") and any(x.get("k") == "Call" and x.get("callee") == tc["path"] for x in walk(b["body"]))})
    r.ob("the cleaner is applied to JSX text and to string attribute values", len(users) >= 2, "-", "called from %s" % users)
    return r


def r02_5(ctx):
    r = Rule("R02.5", "separator rule of the text cleaner: a joining space follows every emitted line except the last non-blank line, and that "
             "index is line 0 when every line is blank (the JSX rule's initial value), so a space-only single-line text stays as it is",
             "`{a} {b}`: with `None` for 'no non-blank line' the only line gets a separator and the text becomes two spaces")
    tc = C.role_or_fail(ctx, r, "text_cleaner")
    if not tc:
        return r
    r.saw(tc["path"])
    idx = HirIndex(tc)
    seps = []
    for n in walk(tc["body"]):
        if n.get("k") != "If":
            continue
        pushes = [x for x in walk(n["then"]) if x.get("k") == "MethodCall" and x["method"] in ("push", "push_str") and x["args"]
                  and strip_transparent(x["args"][0]).get("k") == "Lit" and strip_transparent(x["args"][0]).get("v") == " "]
        c = strip_transparent(n["cond"])
        if pushes and c.get("k") == "Binary" and c.get("op") in ("!=", "<", "=="):
            seps.append((n, c))
    if len(seps) != 1:
        r.ob("separator test found", None, C.mloc(tc, tc), "%d candidate test(s) guarding a pushed space: the shape is not the one this rule decides" % len(seps))
        return r
    n, c = seps[0]
    sides = [strip_transparent(c["l"]), strip_transparent(c["r"])]
    tys = [(x.get("ty") or "").lstrip("&") for x in sides]
    r.ob("the separator test compares two line indices", all(t == "usize" for t in tys) and c.get("op") in ("!=", "<"), C.mloc(tc, n),
         "`%s` over %s" % (expr_str(c), tys) if all(t == "usize" for t in tys) else
         "`%s` compares %s: `Some(i) != None` holds for every line of an all-blank text, so its only line gets a separator" % (expr_str(c), tys))
    # where does the last-non-blank index come from?
    found = None
    for x in sides:
        lo = local_of(x)
        b = idx.binding.get(lo[1]) if lo else None
        init = strip_transparent(b["init"]) if b and b.get("init") is not None else None
        if init is not None and any(y.get("k") == "MethodCall" and y["method"] in ("rposition", "position", "rfind", "rev") for y in walk(init)):
            found = init
    if found is None:
        r.ob("the last non-blank index is 0 when every line is blank", None, C.mloc(tc, n), "the compared index is not computed by a search in a `let`: not decided")
        return r
    t = expr_str(found)
    ok = found.get("k") == "MethodCall" and (
        (found["method"] == "unwrap_or" and expr_str(found["args"][0]) == "0") or found["method"] == "unwrap_or_default" or
        (found["method"] == "map_or" and expr_str(found["args"][0]) == "0"))
    r.ob("the last non-blank index is 0 when every line is blank", ok, C.mloc(tc, found), t[:120])
    return r


def _leaves(node):
    """tail expressions of a nested if/match/block expression"""
    k = node.get("k")
    if k == "Block":
        if node.get("expr") is not None:
            return _leaves(node["expr"])
        return [node]
    if k == "If":
        out = _leaves(node["then"])
        if node.get("else") is not None:
            out += _leaves(node["else"])
        return out
    if k == "Match":
        out = []
        for a in node["arms"]:
            out += _leaves(a["body"])
        return out
    return [node]


def _dispatch(ch):
    for n in walk(ch["body"]):
        if n.get("k") == "Match" and "as_slice()" in expr_str(n["scrut"]) and any(pat_str(a["pat"]) == "[]" for a in n["arms"]):
            return n
    return None


def r02_2(ctx):
    r = Rule("R02.2", "non-component hosts (elements, Fragment, KeepAlive, custom elements) receive a child list or null on every path",
             "a slots object handed to an element is rendered as garbage / not at all")
    ch = C.role_or_fail(ctx, r, "children_builder")
    if not ch:
        return r
    r.saw(ch["path"])
    idx = HirIndex(ch)
    d = _dispatch(ch)
    if d is None:
        r.ob("dispatch found", None, C.mloc(ch, ch), "no match over the collected children (not decided)")
        return r
    seen = {}
    for leaf in _leaves(d):
        t = expr_str(leaf)
        if t.startswith("Array(ArrayLit{"):
            kind = "list"
        elif t.startswith("Lit(Null("):
            kind = "null"
        else:
            kind = "other"
        facts = idx.known_true(leaf)
        pos = any((not isinstance(f, tuple)) and "is_component" in expr_str(f) and not expr_str(f).startswith("!") for f in facts)
        neg = any(isinstance(f, tuple) and expr_str(f[1]) == "is_component" for f in facts)
        key = "children result `%s…` " % t[:40]
        c = seen.get(key, 0)
        seen[key] = c + 1
        key = key + ("" if not c else "#%d " % (c + 1))
        if kind in ("list", "null"):
            r.ob(key + "is a list / null", True, C.mloc(ch, leaf), "allowed for every host")
        else:
            r.ob(key + "is only produced for component hosts", pos and not neg, C.mloc(ch, leaf),
                 "under is_component" if pos and not neg else "a slots object / wrapper / passthrough can be returned on a path where is_component is false")
    return r


def r02_3(ctx):
    r = Rule("R02.3", "child table: text -> createTextVNode(cleaned) unless empty; empty expression -> nothing; expression -> itself; spread -> spliced; element / fragment -> recursive lowering; collected in order",
             "a wrong arm drops, duplicates or reorders children")
    ch = C.role_or_fail(ctx, r, "children_builder")
    tf = C.role_or_fail(ctx, r, "jsx_text_fn")
    if not ch:
        return r
    r.saw(ch["path"])
    el = C.role(ctx, "element_builder")
    fr = C.role(ctx, "fragment_builder")
    table = None
    for n in walk(ch["body"]):
        if n.get("k") == "Closure" and n.get("params") and (n["params"][0].get("ty") or "").endswith("JSXElementChild"):
            for m in walk(n["body"]):
                if m.get("k") == "Match":
                    table = m
                    break
            # adapter must keep order and drop nothing else: filter_map
            break
    if table is None:
        r.ob("child table found", None, C.mloc(ch, ch), "not found")
        return r
    want = {
        "JSXText": lambda t: tf is not None and (tf["name"] + "(") in t and "spread: None" in t,
        "JSXExprContainer(JSXExprContainer(expr: JSXEmptyExpr": lambda t: t == "None",
        "JSXExprContainer(JSXExprContainer(expr: Expr": lambda t: "Some(ExprOrSpread{spread: None, expr: expr})" in t,
        "JSXSpreadChild": lambda t: "Some(ExprOrSpread{spread: Some(DUMMY_SP), expr: expr})" in t,
        "JSXElement": lambda t: el is not None and (el["name"] + "(") in t and "spread: None" in t,
        "JSXFragment": lambda t: fr is not None and (fr["name"] + "(") in t and "spread: None" in t,
    }
    found = set()
    for a in table["arms"]:
        ps = pat_str(a["pat"])
        t = expr_str(a["body"])
        for k, pred in want.items():
            if ps.startswith(k):
                found.add(k)
                r.ob("child %s" % k.split("(")[-1 if "expr:" in k else 0].replace("expr: ", "expression container: "), pred(t), C.mloc(ch, a), t[:120])
    r.ob("all six child kinds are handled", len(found) == 6, C.mloc(ch, table), "handled %d of 6" % len(found))
    if tf:
        r.saw(tf["path"])
        t = expr_str(tf["body"])
        tc = C.role(ctx, "text_cleaner")
        ok = tc is not None and ("%s(jsx_text.value)" % tc["name"]) in t and ("if text.is_empty() None else Some(Call(" in t or "!text.is_empty().then(|| Call(" in t or "if !text.is_empty() Some(Call(" in t) and "'createTextVNode'" in t and "value: text" in t
        r.ob("text child: cleaned; empty -> nothing; otherwise createTextVNode(<cleaned>)", ok, C.mloc(tf, tf), t[:160])
        # ... on every path: the text that becomes the vnode is the cleaner's result itself, not a choice between it and the source text
        idx_tf = HirIndex(tf)
        for x in idx_tf.nodes:
            if x.get("k") == "Struct" and x.get("adt") == AST + "Str":
                v = strip_transparent({f["name"]: f["e"] for f in x["fields"]}.get("value", {}))
                lo = local_of(v)
                bd = idx_tf.binding.get(lo[1]) if lo else None
                src = strip_transparent(bd["init"]) if bd and bd.get("init") is not None else v
                direct = tc is not None and src.get("k") == "Call" and src.get("callee") == tc["path"]
                r.ob("the text vnode's string is the cleaner's result on every path", direct, C.mloc(tf, x),
                     "%s(..)" % (tc["name"] if tc else "?") if direct else "the string is `%s`: some texts bypass the cleaning" % expr_str(src)[:70])
    # an expression child is passed through as written, whatever the expression is
    for a in table["arms"]:
        if "JSXExprContainer(" in pat_str(a["pat"]) and "expr: Expr(" in pat_str(a["pat"]).replace("JSXExpr(", "Expr("):
            bad = [x for x in walk(a["body"]) if x.get("k") == "Ret"] + \
                  [x for x in walk(a["body"]) if x.get("k") in ("Call", "MethodCall") and tf is not None and (x.get("callee") == tf["path"] or (tc is not None and x.get("callee") == tc["path"]))]
            r.ob("an expression child never becomes JSX text", not bad, C.mloc(ch, bad[0]) if bad else C.mloc(ch, a),
                 "passed through" if not bad else "this arm has an early exit / calls the text lowering: some expression children are rewritten instead of passed through")
    return r


def rules(ctx):
    if ctx.tier == "thorough":
        from . import controls
        extra = [controls.callee_pattern_control("R02.1", UNICODE_WS_APIS, ["unicode_trim"])]
    else:
        extra = []
    return _rules(ctx) + extra


def _rules(ctx):
    from ..engine import only
    from . import c03
    return [__import__('vjsx.rules.c10', fromlist=['x']).field_ratchet('children lowering must not depend on visitor state'), r02_1, r02_2, r02_3, r02_5,
            only(c01.r01_1, lambda k: k.startswith(("component predicate", "the Fragment name")), "which hosts are components (Fragment / KeepAlive / elements receive child lists)"),
            only(c03.r03_1, lambda k: k.startswith(("the single-child arm", "several children", "no children", "any other single child")), "child-list arms of the dispatch (spread children are never a 'single child')"),
            c11.r11_3]


EXPLANATION = (
    "R02.5: the one test that guards the joining space compares two usize line indices, and the last-non-blank index is the search "
    "result `.unwrap_or(0)` (Babel's `lastNonEmptyLine = 0`). "
    "R02.1: in the text cleaner (resolved callees of the function and its closures) there is no call of str::lines / trim / trim_start / "
    "trim_end / split_whitespace / char::is_whitespace, whose contracts differ from the JSX rule; CR, LF, TAB and space occur as explicit "
    "character literals; trimming is by the space character. R02.2: every tail expression of the children dispatch that is not an ArrayLit "
    "or Null is produced under a positive is_component condition. R02.3: the six-entry child table and the text-child function. R01.1 "
    "(Fragment / KeepAlive are non-component hosts) and R11.3 (order) are shared. The string function transform_text as a whole (which "
    "line is first/last, joining) is NOT decided by this family."
)
ASSUMPTIONS = ["transform_text as a total function on strings is not verified (only its std-API contract and the characters it handles)"]
TRUSTED = ["rustc nightly HIR/MIR", "documented contracts of str::lines / str::trim*"]
LEVEL = "other"
LEVEL_TEXT = "API-contract, table and guard checks; the text-cleaning function itself is outside what static shape rules decide."
LEVEL_NOTE = "Not applicable to this family: transform_text's first/last-line logic on all strings."
TECHNIQUE = "resolved-callee denylist in the text cleaner + leaf/guard analysis of the children dispatch + child table extraction"
