"""C14 — options have their documented defaults and only their documented effect."""
import json, re
from ..facts import AST, VISITOR_CRATE, PLUGIN_CRATE, walk, strip_transparent, field_path
from ..engine import Rule
from ..cfg import CFG, calls, callee_name, place_of, op_const
from . import common as C
from .mirflow import self_field_of
from .influence import flow_of, switch_fields, effects_in, dependent_blocks, switch_deps
from .state import access_index, is_visitor_body, root_path, first_field

DOCUMENTED_KEYS = {"transformOn", "optimize", "customElementPatterns", "mergeProps", "enableObjectSlots", "pragma", "resolveType"}
DOCUMENTED_DEFAULTS = {"transform_on": False, "optimize": False, "custom_element_patterns": "empty", "merge_props": True,
                       "enable_object_slots": True, "pragma": "None", "resolve_type": False}


def _bodies(ctx, pred):
    return [b for b in ctx.facts.mir if pred(b)]


def _str_consts(b):
    out = set()
    for blk in b["blocks"]:
        if blk.get("cleanup"):
            continue
        js = json.dumps([blk["stmts"], (blk.get("term") or {}).get("args", [])])
        out |= set(re.findall(r'"str": "([^"]*)"', js))
    return out


def r14_1(ctx):
    r = Rule("R14.1", "accepted JSON keys are exactly the documented ones; unknown keys are ignored (expanded serde impl)",
             "a renamed/missing key silently turns an option off; deny_unknown_fields would reject valid configs")
    fv = _bodies(ctx, lambda b: b["crate"] == VISITOR_CRATE and "Deserialize" in (b.get("mac") or []) and "options::Options" in b["path"] and b["path"].endswith("__FieldVisitor as serde::de::Visitor<'de>>::visit_str"))
    if len(fv) != 1:
        r.ob("derived field visitor found", False, "-", "expected one __FieldVisitor::visit_str for options::Options, found %d" % len(fv))
        return r
    b = fv[0]
    r.saw(b["path"])
    keys = _str_consts(b)
    r.ob("accepted keys", keys == DOCUMENTED_KEYS, C.mloc(b, b),
         "keys compared in visit_str: %s" % sorted(keys) if keys == DOCUMENTED_KEYS else "accepted keys %s differ from the documented %s" % (sorted(keys), sorted(DOCUMENTED_KEYS)))
    calls_ = {callee_name(t) for i, t in calls(b)}
    unk = [c for c in calls_ if "unknown_field" in c or "unknown_variant" in c]
    has_ignore = any(s["k"] == "assign" and s["rv"].get("rk") == "agg" and s["rv"].get("variant") == "__ignore" for blk in b["blocks"] for s in blk["stmts"])
    r.ob("unknown keys are ignored", not unk and has_ignore, C.mloc(b, b),
         "fall-through returns __Field::__ignore; no Error::unknown_field" if (not unk and has_ignore) else "unknown keys are rejected (%s) or not mapped to __ignore" % unk)
    # the struct fields and the key set agree in number (no #[serde(skip)])
    fields = ctx.facts.struct_fields("Options") or []
    r.ob("every Options field has a key", len(fields) == len(keys), "-", "%d fields, %d keys" % (len(fields), len(keys)))
    return r


def r14_2(ctx):
    r = Rule("R14.2", "missing fields take <Options as Default>::default(), whose constants are the documented defaults; {} equals no configuration",
             "a per-field default that differs from Default makes `{}` differ from an absent configuration")
    vm = _bodies(ctx, lambda b: b["crate"] == VISITOR_CRATE and "options::Options" in b["path"] and b["path"].endswith("__Visitor<'de> as serde::de::Visitor<'de>>::visit_map"))
    df = _bodies(ctx, lambda b: b["crate"] == VISITOR_CRATE and b["path"] == "<options::Options as core::default::Default>::default")
    if len(vm) != 1 or len(df) != 1:
        r.ob("derived map visitor and Default impl found", False, "-", "visit_map: %d, Default::default: %d" % (len(vm), len(df)))
        return r
    vm, df = vm[0], df[0]
    r.saw(vm["path"])
    r.saw(df["path"])
    uses_default = [t for i, t in calls(vm) if callee_name(t) == "<options::Options as core::default::Default>::default"]
    per_field_default = [callee_name(t) for i, t in calls(vm) if re.search(r"core::default::Default>::default$", callee_name(t)) and "options::Options" not in callee_name(t)]
    ok = bool(uses_default) and not per_field_default
    r.ob("visit_map fills missing fields from <Options as Default>::default", ok, C.mloc(vm, uses_default[0] if uses_default else vm),
         "container-level #[serde(default)]: one call of Options::default, no per-field fallback" if ok else
         "missing fields are filled by %s instead of the container default: `{}` no longer equals the documented defaults" % (sorted(set(per_field_default)) or "something else"))
    # constants of Default::default
    for blk in df["blocks"]:
        for s in blk["stmts"]:
            if s["k"] == "assign" and s["rv"].get("rk") == "agg" and s["rv"].get("adt") == "options::Options":
                names = s["rv"]["fields"]
                for nme, op in zip(names, s["rv"]["ops"]):
                    want = DOCUMENTED_DEFAULTS.get(nme)
                    c = op_const(op)
                    if want is None:
                        r.ob("default of %s" % nme, None, C.mloc(df, s), "field without a documented default")
                    elif isinstance(want, bool):
                        got = c.get("bool") if c else None
                        r.ob("default of %s" % nme, got == want, C.mloc(df, s), "constant %s (documented %s)" % (got, want))
                    elif want == "None":
                        fl = flow_of(ctx, df)
                        srcs = fl.op_sources(op)
                        okn = any(x[0] == "agg" and x[2] == "None" for x in srcs) and not any(x[0] == "agg" and x[2] == "Some" for x in srcs)
                        r.ob("default of %s" % nme, okn, C.mloc(df, s), "None" if okn else "not None: %s" % sorted(srcs, key=str))
                    elif want == "empty":
                        fl = flow_of(ctx, df)
                        srcs = fl.op_sources(op)
                        oke = any(x[0] == "call" and re.search(r"(Default>::default|Vec::<T>::new)$", x[1]) for x in srcs)
                        r.ob("default of %s" % nme, oke, C.mloc(df, s), "empty Vec (Default::default / Vec::new)" if oke else "not the empty vector: %s" % sorted(srcs, key=str))
    return r


def r14_3(ctx):
    r = Rule("R14.3", "plugin entry: absent configuration -> Options::default(); given configuration is parsed as Options and passed on unmodified; parse errors are not swallowed",
             "a fallback on parse error or a tweak after parsing changes the documented defaults")
    bs = _bodies(ctx, lambda b: b["crate"] == PLUGIN_CRATE and not b.get("mac") and b["dk"] != "Closure")
    entry = [b for b in bs if any(callee_name(t).endswith("VueJsxTransformVisitor::<C>::new") for i, t in calls(b))]
    if len(entry) != 1:
        r.ob("plugin entry found", False, "-", "expected one function constructing the visitor, found %d" % len(entry))
        return r
    b = entry[0]
    r.saw(b["path"])
    fl = flow_of(ctx, b)
    for i, t in calls(b):
        if callee_name(t).endswith("VueJsxTransformVisitor::<C>::new"):
            srcs = fl.op_sources(t["args"][0])
            names = {x[1] for x in srcs if x[0] == "call"}
            # either `parsed.unwrap_or_default()`, or the two arms of a match: Options::default() / the strictly parsed value
            # `opt.map_or_else(Default::default, |json| parse(json))`: the first argument must be the Default impl itself
            moe = [tt for _, tt in calls(b) if callee_name(tt).endswith("Option::<T>::map_or_else")]
            moe_default = bool(moe) and all(((op_const(tt["args"][1]) or {}).get("fn") or "").endswith("Default::default") for tt in moe if len(tt["args"]) > 1)
            dflt = any(n.endswith("Option::<T>::unwrap_or_default") for n in names) or moe_default or \
                (any(n.endswith("::default") and "Default" in n for n in names) and any(re.search(r"Result::<T, E>::(expect|unwrap)$", n) for n in names))
            odd = sorted(n for n in names if not re.search(r"(Option::<T>::(unwrap_or_default|map|map_or_else)|Result::<T, E>::(expect|unwrap)|::default|from_str|get_transform_plugin_config|::clone|::into|::from|::as_str|::as_ref|::deref)$", n))
            ok = dflt and not odd
            r.ob("options argument = parsed-config.unwrap_or_default()", ok, C.mloc(b, t), "sources: %s" % sorted(n.split("::")[-1] for n in names) + ("; unexpected: %s" % odd if odd else ""))
            # no field store into the options local
            p = place_of(t["args"][0])
            tampered = False
            if p is not None:
                for blk in b["blocks"]:
                    for s in blk["stmts"]:
                        if s["k"] == "assign" and s["lhs"]["l"] == p["l"] and s["lhs"].get("p"):
                            tampered = True
            r.ob("options are not modified between parsing and construction", not tampered, C.mloc(b, t), "no field store" if not tampered else "a field of the parsed options is overwritten")
    # where the JSON is parsed (the entry or one of its closures): from_str::<Options> then expect (no unwrap_or*, ok(), or_else)
    cls = [b] + ctx.facts.closures_of.get((b["crate"], b["path"]), [])
    parsed = False
    for cb in cls:
        names = [callee_name(t) for i, t in calls(cb)]
        if any(n.endswith("serde_json::de::from_str") or n.endswith("serde_json::from_str") for n in names):
            parsed = True
            r.saw(cb["path"])
            bad = [n for n in names if re.search(r"Result::<T, E>::(unwrap_or|unwrap_or_default|unwrap_or_else|ok|or|or_else)$", n)]
            strict = any(re.search(r"Result::<T, E>::(expect|unwrap)$", n) for n in names)
            full = [t.get("callee_full", "") for i, t in calls(cb) if "from_str" in callee_name(t)]
            typed = any("options::Options" in f for f in full)
            r.ob("configuration JSON is parsed as Options and errors are fatal", strict and not bad and typed, C.mloc(cb, cb),
                 "from_str::<Options>(..).expect(..)" if (strict and not bad and typed) else "parse result handled by %s" % (bad or names))
    if not parsed:
        r.ob("configuration JSON is parsed as Options and errors are fatal", False, C.mloc(b, b), "no serde_json::from_str in the entry's closures")
    return r


def r14_4(ctx):
    r = Rule("R14.4", "an invalid custom-element pattern is a deserialisation error (no fallback pattern)", "a swallowed regex error misapplies the option")
    vs = _bodies(ctx, lambda b: b["crate"] == VISITOR_CRATE and not b.get("mac") and re.search(r"RegexVisitor as serde::de::Visitor<'_>>::visit_(str|string|borrowed_str)$", b["path"]))
    if not vs:
        r.ob("regex visitor found", False, "-", "no RegexVisitor::visit_str")
        return r
    for b in vs:
        r.saw(b["path"])
        ok, why = _propagates_regex_error(ctx, b, set())
        r.ob("%s propagates the regex error" % b["path"].split("::")[-1], ok, C.mloc(b, b), why)
    return r


def _propagates_regex_error(ctx, b, seen):
    """the returned Result derives from the regex crate's `Regex::new` through map / map_err / and_then and through local functions
    of which the same holds (a visitor method delegating to its sibling, the crate's own `Regex::new` wrapper); no fallback anywhere"""
    if b["path"] in seen:
        return False, "recursive delegation"
    seen = seen | {b["path"]}
    names = [callee_name(t) for i, t in calls(b)]
    bad = [n for n in names if re.search(r"Result::<T, E>::(unwrap_or|unwrap_or_default|unwrap_or_else|ok|or|or_else|unwrap|expect)$", n)]
    if bad:
        return False, "the regex error is replaced / swallowed (%s)" % bad
    fl = flow_of(ctx, b)
    via = set()
    todo = [0]
    done = set()
    while todo:
        l = todo.pop()
        if l in done:
            continue
        done.add(l)
        for kind, bb, d in fl.defs.get(l, []):
            if kind == "call":
                n = callee_name(d)
                via.add(n)
                if n.split("::")[-1] in ("map", "map_err", "and_then") and d["args"] and place_of(d["args"][0]):
                    todo.append(place_of(d["args"][0])["l"])
            elif d["rv"].get("rk") == "use" and place_of(d["rv"]["op"]):
                todo.append(place_of(d["rv"]["op"])["l"])
            elif d["rv"].get("rk") not in ("use",):
                via.add("<%s>" % d["rv"].get("rk"))
    base = False
    chain = []
    for n in sorted(via):
        last = n.split("::")[-1]
        local = ctx.facts.mir_by_path.get((b["crate"], n))
        if local is not None:
            ok, why = _propagates_regex_error(ctx, local, seen)
            if not ok:
                return False, "delegates to %s: %s" % (last, why)
            base = True
            chain.append(last + "()")
        elif n.startswith("regex::") and last == "new":
            base = True
            chain.append("regex::Regex::new")
        elif last in ("map", "map_err", "and_then", "deref", "as_str", "as_ref", "borrow"):
            chain.append(last)
        else:
            return False, "return value passes through %s" % n
    if not base:
        return False, "Regex::new missing (%s)" % sorted(x.split("::")[-1] for x in via)
    return True, "return value comes from Regex::new via %s" % chain


PURE = re.compile(r"(core::cmp::PartialEq|::eq$|::ne$|::deref$|::as_ref$|::is_empty$|::len$|::iter$|::clone$|::is_some$|::is_none$|::into$|::from$|::as_slice$|::eq_ignore_ascii_case$|util::is_on$"
                  r"|core::mem::take$|::as_deref_mut$|::as_mut$|::get_mut$|::iter_mut$|::deref_mut$|alloc::boxed::Box::<T>::new$|core::iter::traits::iterator::Iterator::(any|all)$|regex::.*::is_match$|core::str::|::as_str$|::as_bytes$|::to_string$|::unwrap_or_default$|::map$)")


def _feature_edges_transform_on(ctx, mb):
    """edges taken when the attribute name equals "on"/"nativeOn" """
    fl = flow_of(ctx, mb)
    drop = set()
    # promoted `&&str` operands are not evaluated in MIR facts: take the comparisons from the typed HIR and match by span
    from ..facts import const_str
    hb = ctx.facts.hir_by_path.get((mb["crate"], root_path(mb)))
    name_cmp_spans = set()
    if hb is not None:
        for n in walk(hb["body"]):
            if n.get("k") == "Binary" and n.get("op") in ("==", "!="):
                if const_str(n["l"]) in ("on", "nativeOn") or const_str(n["r"]) in ("on", "nativeOn"):
                    name_cmp_spans.add(tuple(n["sp"]))
    for blk in mb["blocks"]:
        t = blk.get("term") or {}
        if t.get("k") != "switch":
            continue
        deps = switch_deps(ctx, mb, blk["i"])
        p = place_of(t["discr"])
        if p is None:
            continue
        # the discriminant is the result of an eq/ne call with a const "on"/"nativeOn"
        for kind, bb, d in fl.defs.get(p["l"], []):
            if kind == "call" and re.search(r"::(eq|ne)$", callee_name(d)):
                consts = {(op_const(a) or {}).get("str") for a in d["args"]}
                for a in d["args"]:
                    consts |= {x[1] for x in fl.op_sources(a) if x[0] == "const"}
                if consts & {"on", "nativeOn"} or tuple(d.get("sp") or ()) in name_cmp_spans:
                    is_ne = callee_name(d).endswith("::ne")
                    for v, tgt in t["targets"]:
                        if v == 0 and is_ne:
                            drop.add((blk["i"], tgt))
                    if not is_ne:
                        drop.add((blk["i"], t["otherwise"]))
    return drop


def _ref_consts(mb, fl, args):
    out = set()
    for a in args:
        p = place_of(a)
        if p is None:
            continue
        for kind, bb, d in fl.defs.get(p["l"], []):
            if kind == "stmt":
                js = json.dumps(d["rv"])
                out |= set(re.findall(r'"str": "([^"]*)"', js))
                # promoted constants: &&str
        # one more level
    return out


def _variant_edges(mb, fl, adt_suffix, variants):
    """edges of discriminant switches over `adt` for the given variants"""
    out = set()
    for blk in mb["blocks"]:
        t = blk.get("term") or {}
        if t.get("k") != "switch":
            continue
        p = place_of(t["discr"])
        if p is None:
            continue
        for s in blk["stmts"]:
            if s["k"] == "assign" and s["lhs"]["l"] == p["l"] and s["rv"].get("rk") == "discr" and (s["rv"].get("adt") or "").endswith(adt_suffix):
                vmap = {v[1]: v[0] for v in s["rv"].get("variants", [])}
                listed = {v for v, tgt in t["targets"]}
                for name in variants:
                    if name in vmap:
                        if vmap[name] in listed:
                            for v, tgt in t["targets"]:
                                if v == vmap[name]:
                                    out.add((blk["i"], tgt))
                        else:
                            out.add((blk["i"], t["otherwise"]))
    return out


def r14_5(ctx):
    r = Rule("R14.5", "each option only influences inputs that use the feature it governs (control dependence restricted to feature-absent paths)",
             "an option read that controls an effect on other inputs changes their output")
    F = ctx.facts
    idx = access_index(ctx)
    opt_fields = [f["name"] for f in (F.struct_fields("Options") or [])]
    read_by = {f: 0 for f in opt_fields}
    seen = {}

    def ob(key, ok, loc, detail):
        c = seen.get(key, 0)
        seen[key] = c + 1
        r.ob(key if c == 0 else "%s #%d" % (key, c + 1), ok, loc, detail)

    dedupe = C.role(ctx, "dedupe")
    dc_pred = C.role(ctx, "dc_pred")
    for mb in F.mir:
        if mb["crate"] != VISITOR_CRATE or not is_visitor_body(mb):
            continue
        rootb = F.mir_by_path.get((mb["crate"], root_path(mb))) or mb
        if rootb.get("mac"):
            continue
        g = C.cfg_of(ctx, mb)
        fl = flow_of(ctx, mb)
        by_field = {}
        for b in g.reach:
            for f in switch_fields(ctx, mb, b):
                f = f.strip(".")
                if f.startswith("options."):
                    by_field.setdefault(f.split(".")[1], []).append(b)
        # non-branch reads (receiver of calls etc.) also count as reads
        for f in opt_fields:
            for a in idx.get("options", []):
                if a["body"] is mb and a["path"].strip(".").split(".")[1:2] == [f]:
                    read_by[f] += 1
        for f, tests in by_field.items():
            r.saw(mb["path"])
            root = root_path(mb)
            if f == "optimize":
                ob("%s: optimize read" % root, True, C.mloc(mb, mb["blocks"][tests[0]]["term"]), "decided by R12.1")
                continue
            if f == "pragma":
                pf = C.role(ctx, "pragma_fn")
                ok = pf is not None and root == pf["path"]
                ob("%s: pragma read" % root, ok, C.mloc(mb, mb["blocks"][tests[0]]["term"]), "inside the pragma function (R15.1)" if ok else "options.pragma is branched on outside the pragma function")
                continue
            if f == "transform_on":
                drop = _feature_edges_transform_on(ctx, mb)
                if not drop:
                    ob("%s: transform_on is tied to the `on`/`nativeOn` test" % root, False, C.mloc(mb, mb["blocks"][tests[0]]["term"]),
                       "no comparison of the attribute name with \"on\"/\"nativeOn\" found next to the transform_on read")
                    continue
                g2 = CFG(mb, drop_edges=drop)
                dep = dependent_blocks(g2, tests)
                effs = [e for e in effects_in(ctx, mb, dep) if not (e["kind"] == "mutcall" and PURE.search(e["what"]))]
                effs = [e for e in effs if e["kind"] != "closure"]
                if effs:
                    e = effs[0]
                    ob("%s: transform_on only matters for `on`/`nativeOn` attributes" % root, False, C.mloc(mb, e["node"]),
                       "with the feature absent (attribute is not on/nativeOn) %s `%s` is still control-dependent on options.transform_on" % (e["kind"], e["what"]))
                else:
                    ob("%s: transform_on only matters for `on`/`nativeOn` attributes" % root, True, C.mloc(mb, mb["blocks"][tests[0]]["term"]),
                       "after removing the %d name-matches edge(s), nothing effectful is control-dependent on the option" % len(drop))
                continue
            if f == "merge_props":
                drop = _variant_edges(mb, fl, "JSXAttrOrSpread", ["SpreadElement"])
                g2 = CFG(mb, drop_edges=drop) if drop else g
                dep = dependent_blocks(g2, tests)
                bad = []
                for e in effects_in(ctx, mb, dep):
                    if e["kind"] == "localcall" and dedupe is not None and e["what"] == dedupe["path"]:
                        continue
                    if e["kind"] == "mutcall" and (PURE.search(e["what"])):
                        continue
                    if e["kind"] == "escape" and re.search(r"Vec<swc_ecma_ast::PropOrSpread>$", e["ty"]):
                        continue    # the choice between dedupe(x) and x for the same x
                    if e["kind"] == "closure":
                        continue
                    bad.append(e)
                if bad:
                    e = bad[0]
                    ob("%s: merge_props only matters for spreads / repeated names" % root, False, C.mloc(mb, e["node"]),
                       "without a spread, %s `%s` is control-dependent on options.merge_props (beyond the dedupe-or-not choice)" % (e["kind"], e["what"]))
                else:
                    ob("%s: merge_props only matters for spreads / repeated names" % root, True, C.mloc(mb, mb["blocks"][tests[0]]["term"]),
                       "outside the spread arm the option only chooses between dedupe_props(x) and x")
                continue
            if f == "enable_object_slots":
                allowed = _variant_edges(mb, fl, "::Expr", ["Ident", "Call"])
                for tb in tests:
                    ctrl = g.transitive_control_branches(tb)
                    ok = any((a, s) in allowed for (a, s) in ctrl)
                    other = _variant_edges(mb, fl, "::Expr", ["Object", "Fn", "Arrow", "Member", "Lit", "Array"])
                    bad = any((a, s) in other for (a, s) in ctrl)
                    ob("%s: enable_object_slots is only read for a single identifier / call child" % root, ok and not bad, C.mloc(mb, mb["blocks"][tb]["term"]),
                       "the read is control-dependent on the child being Expr::Ident / Expr::Call" if ok and not bad else "the option is read outside the Ident/Call child arms")
                continue
            if f == "resolve_type":
                # feature-absent = not a defineComponent call: drop the true edge of the identity predicate
                drop = set()
                for blk in mb["blocks"]:
                    t = blk.get("term") or {}
                    if t.get("k") == "switch":
                        p = place_of(t["discr"])
                        for kind, bb, d in fl.defs.get(p["l"], []) if p else []:
                            if kind == "call" and dc_pred is not None and callee_name(d) == dc_pred["path"]:
                                drop.add((blk["i"], t["otherwise"]))
                g2 = CFG(mb, drop_edges=drop) if drop else g
                dep = dependent_blocks(g2, tests)
                bad = []
                for e in effects_in(ctx, mb, dep):
                    fields = {first_field(x) for x in e.get("fields", set())}
                    if e["kind"] in ("mutcall", "store") and fields and fields <= {"interfaces", "type_aliases"}:
                        continue
                    if e["kind"] == "mutcall" and PURE.search(e["what"]):
                        continue
                    if e["kind"] == "mutcall" and re.search(r"(HashMap::<K, V, S, A>::(get_mut|insert)|Vec::<T, A>::extend_from_slice)$", e["what"]) and (not fields or fields <= {"interfaces", "type_aliases"}):
                        continue
                    if e["kind"] == "escape" and not e["ty"].startswith(AST) and "Vec<" not in e["ty"]:
                        continue
                    if e["kind"] == "localcall" and dc_pred is not None and e["what"] == dc_pred["path"]:
                        continue
                    bad.append(e)
                if bad:
                    e = bad[0]
                    ob("%s: resolve_type only matters for defineComponent calls" % root, False, C.mloc(mb, e["node"]),
                       "%s `%s` is control-dependent on options.resolve_type for inputs that are not defineComponent calls" % (e["kind"], e["what"]))
                else:
                    ob("%s: resolve_type only matters for defineComponent calls" % root, True, C.mloc(mb, mb["blocks"][tests[0]]["term"]),
                       "apart from filling the internal type registries, everything under the option is behind the defineComponent identity test")
                continue
            if f == "custom_element_patterns":
                ob("%s: custom_element_patterns branch" % root, True, C.mloc(mb, mb["blocks"][tests[0]]["term"]), "branch on `patterns.any/all(is_match(tag))` (usage check below)")
    # custom_element_patterns: only receiver of iter().any/all with is_match closures
    pats = [a for a in idx.get("options", []) if a["path"].strip(".").split(".")[1:2] == ["custom_element_patterns"]]
    okp = True
    why = []
    for a in pats:
        if a["kind"] == "call" and not re.search(r"(::deref$|::iter$|Iterator::(any|all)$|Iterator>::(any|all)$|::is_empty$|::clone$|::fmt$)", a["callee"]):
            okp = False
            why.append(a["callee"])
    closures_ok = 0
    for mb in F.mir:
        if mb["crate"] == VISITOR_CRATE and mb["dk"] == "Closure" and any("pattern" in (l.get("name") or "") for l in mb["locals"]):
            if any(re.search(r"Regex::is_match$", callee_name(t)) for i, t in calls(mb)):
                closures_ok += 1
    ob("custom_element_patterns is only matched against tag names", okp and closures_ok >= 1, "-",
       "%d access(es): deref/iter/any/all only; %d closure(s) call Regex::is_match" % (len(pats), closures_ok) if okp else "other use: %s" % why)
    # every option is read somewhere
    for f in opt_fields:
        ob("option %s is read by the transform" % f, read_by.get(f, 0) > 0, "-", "%d access(es) outside derive code" % read_by.get(f, 0))
    return r


def hir_mir_option_reads(ctx):
    """thorough: the MIR-derived option read sites are re-derived from the typed HIR; both views must agree"""
    r = Rule("R14.X", "cross-check: (function, option) read sites derived from MIR equal those derived from the typed HIR", "a disagreement means one view misses reads (e.g. precise closure captures)")
    idx = access_index(ctx)
    mir = set()
    for a in idx.get("options", []):
        parts = a["path"].strip(".").split(".")
        if len(parts) >= 2 and not root_path(a["body"]).endswith("::new"):
            mir.add((root_path(a["body"]), re.sub(r"as \w+", "", parts[1])))
    hir = set()
    for b in ctx.facts.hir:
        if b["crate"] != VISITOR_CRATE or b.get("mac"):
            continue
        for n in walk(b["body"]):
            if n.get("k") == "Field":
                fp = field_path(strip_transparent(n)) or ""
                m = re.match(r"self\.options\.(\w+)$", fp)
                if m:
                    hir.add((b["path"], m.group(1)))
    for x in sorted(hir | mir):
        r.ob("%s reads options.%s" % x, x in hir and x in mir, "-", "seen in both views" if (x in hir and x in mir) else ("only in the %s view" % ("HIR" if x in hir else "MIR")))
    return r


def r14_6(ctx):
    r = Rule("R14.6", "the transformOn helper is requested only where `options.transform_on` is known to hold",
             "`a && b || c` lets `nativeOn` through with the option off")
    from .hirflow import HirIndex
    n = 0
    for hb in ctx.facts.hir:
        if hb["crate"] != VISITOR_CRATE or hb.get("mac"):
            continue
        idx = None
        for x in walk(hb["body"]):
            if x.get("k") == "MethodCall" and x["method"] in ("get_or_insert_with", "get_or_insert", "insert", "replace") and \
                    (field_path(strip_transparent(x["recv"])) or "") == "self.transform_on_helper":
                idx = idx or HirIndex(hb)
                n += 1
                r.saw(hb["path"])
                facts = idx.known_true(x)
                ok = any((not isinstance(f, tuple)) and field_path(strip_transparent(f)) == "self.options.transform_on" for f in facts)
                from .hirtext import expr_str
                r.ob("%s: helper requested under options.transform_on" % hb["name"], ok, C.mloc(hb, x),
                     "known true here: %s" % [("!" if isinstance(f, tuple) else "") + expr_str(f[1] if isinstance(f, tuple) else f)[:60] for f in facts][:4])
    r.ob("requests of the transformOn helper examined", n > 0, "-", "%d site(s)" % n)
    return r


def rules(ctx):
    from . import c12, c10
    from ..engine import only
    from . import c01
    from . import c09
    from . import c20
    out = [r14_1, r14_2, r14_3, r14_4, r14_5, r14_6, c12.r12_1, c09.r09_5, c20.r20_1, c20.r20_2,
           only(c01.r01_1, lambda k: k.startswith("component predicate") or "custom" in k.lower(), "customElementPatterns is matched against the whole tag name of plain / namespaced tags only")]
    if ctx.tier == "thorough":
        out.append(hir_mir_option_reads)
    return out


EXPLANATION = (
    "R14.1/R14.2 read the *expanded* serde impl from MIR: the string constants compared in __FieldVisitor::visit_str are exactly the seven "
    "documented keys, the fall-through yields __ignore (no unknown_field error), visit_map fills missing fields from <Options as "
    "Default>::default (container default), and that function's aggregate holds the documented constants field by field. R14.3: in the plugin "
    "entry the visitor's options argument is from_str::<Options>(..).expect(..) under Option::map, then unwrap_or_default, unmodified. R14.4: "
    "both RegexVisitor methods return Regex::new(..) through map/map_err only. R14.5: for each option read, control dependence is recomputed "
    "on the CFG with the feature-present edges removed (attribute name == on/nativeOn; SpreadElement arm; defineComponent identity test) and "
    "no effect may remain dependent on the option (merge_props: only the dedupe_props(x)-or-x choice; resolve_type: only the internal type "
    "registries); enable_object_slots reads must sit under the Ident/Call child arms; custom_element_patterns is only matched against tag "
    "names; optimize is R12.1; every option is read."
)
ASSUMPTIONS = ["dedupe_props is the identity on property lists without repeated names (stated, not proved)",
               "serde_derive's expansion shape (visit_str / visit_map / __ignore) as compiled here"]
TRUSTED = ["rustc nightly MIR of the macro-expanded program", "serde / serde_json semantics"]
LEVEL = "other"
LEVEL_TEXT = ("Decides the defaults/keys clauses exactly from the compiled serde expansion and the Default impl, and the 'only its documented "
              "effect' clause as a control-dependence property on feature-restricted CFGs for every option read site.")
LEVEL_NOTE = "Trusted: rustc MIR, serde. Assumed: dedupe_props is the identity without repeated names."
TECHNIQUE = "constant extraction from expanded derive MIR + provenance in the plugin entry + control dependence on feature-restricted CFGs"
