"""C11 — embedded expressions are evaluated once, in source order, slot content lazily."""
import re
from ..facts import AST, VISITOR_CRATE, walk, walk_with_parents, children, strip_transparent, field_path, const_str, local_of
from ..engine import Rule
from ..cfg import calls, callee_name, place_of, op_const
from . import common as C
from .hirflow import HirIndex, conjuncts
from .hirtext import expr_str, pat_str
from .influence import flow_of

CLONE_METHODS = {"clone", "to_owned", "to_vec", "cloned"}
CARRIER_TY = re.compile(r"swc_ecma_ast::(Expr|ExprOrSpread|PropOrSpread|SpreadElement|ObjectLit|ArrayLit|Lit|JSXAttrValue|JSXExpr|JSXExprContainer|Prop)\b")


def _is_carrier_ty(ty):
    return bool(CARRIER_TY.search(ty or ""))


class Affine:
    """counts, per alias group of input-expression carriers, the maximal number of copies that reach the output on one path"""

    def __init__(self, hb):
        self.hb = hb
        self.idx = HirIndex(hb)
        self.group = {}     # local id -> group key
        self._groups()

    def _root_of(self, node, depth=0):
        """(local id, first field name or None) the expression is a view into"""
        n = node
        fields = []
        for _ in range(30):
            n = strip_transparent(n)
            k = n.get("k")
            if k == "Field":
                fields.append(n["name"])
                n = n["e"]
            elif k == "MethodCall" and n["method"] in ("as_slice", "as_ref", "as_deref", "iter", "first", "get", "as_array", "as_expr", "unwrap", "as_mut", "as_deref_mut", "first_mut", "get_mut") :
                n = n["recv"]
            elif k == "Index":
                n = n["e"]
            elif k == "Path" and n["res"].get("r") == "local":
                return n["res"]["id"], (fields[-1] if fields else None)
            else:
                return None, None
        return None, None

    def _groups(self):
        # union-find by following destructuring bindings back to the local they view into
        for lid, b in self.idx.binding.items():
            self.group[lid] = (lid, None)
        changed = True
        it = 0
        while changed and it < 20:
            changed = False
            it += 1
            for lid, b in self.idx.binding.items():
                if b["kind"] != "let" or b.get("init") is None:
                    continue
                path = b.get("path") or ()
                if not path:
                    # plain `let x = <view of y>` keeps the alias only for references
                    ty = b["pat"].get("ty", "")
                    if not ty.startswith("&"):
                        continue
                root, fld = self._root_of(b["init"])
                if root is None or root == lid:
                    continue
                first = None
                for p in path:
                    if p[0] == "field":
                        first = p[3]
                        break
                g = self.group.get(root, (root, None))
                # distinguish fields of a parsed directive struct (value / argument / modifiers are different expressions)
                rb = self.idx.binding.get(root)
                rty = (rb or {}).get("pat", {}).get("ty", "")
                if g[1] is None and ("Directive" in rty) and (fld or first):
                    g = (g[0], fld or first)
                if self.group[lid] != g:
                    self.group[lid] = g
                    changed = True

    def group_of_expr(self, node):
        root, fld = self._root_of(node)
        if root is None:
            return None
        g = self.group.get(root, (root, None))
        rb = self.idx.binding.get(g[0])
        rty = (rb or {}).get("pat", {}).get("ty", "")
        if g[1] is None and "Directive" in rty and fld:
            g = (g[0], fld)
        return g

    def events(self, node):
        """yield (group, kind, hir_node) for every copy-creating use inside node (not entering nested counting scopes)"""
        k = node.get("k")
        if k == "MethodCall" and node["method"] in CLONE_METHODS and not node["args"]:
            rty = strip_transparent(node["recv"]).get("ty") or node["recv"].get("ty") or ""
            if _is_carrier_ty(node.get("ty", "")) or _is_carrier_ty(rty):
                g = self.group_of_expr(node["recv"])
                if g is not None:
                    yield (g, "clone", node)
        if k == "MethodCall" and node["method"] == "extend_from_slice" and node["args"]:
            g = self.group_of_expr(node["args"][0])
            if g is not None and _is_carrier_ty(node["args"][0].get("ty", "")):
                yield (g, "clone", node)
        if k == "Path" and node["res"].get("r") == "local":
            ty = node.get("ty", "")
            if _is_carrier_ty(ty) and not ty.startswith("&") and not (node.get("tya") or "").startswith("&"):
                # by-value use of an owned carrier (a move): the original itself reaches the output
                b = self.idx.binding.get(node["res"]["id"])
                if b is not None:
                    yield (self.group.get(node["res"]["id"], (node["res"]["id"], None)), "move", node)

    def max_copies(self, node, group):
        """max over paths of the number of copies of `group` created in `node`"""
        k = node.get("k")
        own = sum(1 for g, kind, n in self.events(node) if g == group)
        if k == "If":
            c = self.max_copies(node["cond"], group)
            t = self.max_copies(node["then"], group)
            e = self.max_copies(node["else"], group) if node.get("else") is not None else 0
            return own + c + max(t, e)
        if k == "Match":
            s = self.max_copies(node["scrut"], group)
            best = 0
            for a in node["arms"]:
                v = self.max_copies(a["body"], group) + (self.max_copies(a["guard"], group) if a.get("guard") is not None else 0)
                best = max(best, v)
            return own + s + best
        if k == "Closure":
            # a closure passed to an iterator adapter runs once per element: its body is a separate scope for per-element carriers,
            # but copies of an *outer* carrier inside it count once per call: treat as one (conservative for map over one element)
            return own + self.max_copies(node["body"], group)
        total = own
        if k == "MethodCall" and node["method"] in CLONE_METHODS and own:
            # do not count the receiver path again as a move
            return total + sum(self.max_copies(c, group) for c in children(node["recv"])) if node["recv"].get("k") != "Path" else total
        for c in children(node):
            total += self.max_copies(c, group)
        return total


def _selectors(idx, rhs, assigned, depth=0):
    """which part of the attribute value does this expression copy: '[k]' element, 'whole', 'generated'"""
    out = set()
    if depth > 6:
        return {"?"}
    found = False
    for x in walk(rhs):
        if x.get("k") == "MethodCall" and x["method"] in ("first",) and "ExprOrSpread" in (x.get("ty") or ""):
            out.add("[0]")
            found = True
        if x.get("k") == "MethodCall" and x["method"] == "get" and x["args"] and "ExprOrSpread" in (x.get("ty") or ""):
            a = strip_transparent(x["args"][0])
            out.add("[%s]" % a.get("v", "?"))
            found = True
    if found:
        return out
    # a clone of a binding destructured from an earlier match: follow the binding
    for x in walk(rhs):
        if x.get("k") == "Path" and x["res"].get("r") == "local" and _is_carrier_ty(x.get("ty") or ""):
            b = idx.binding.get(x["res"]["id"])
            if b and b["kind"] == "let" and b.get("init") is not None and b.get("path"):
                inner = _selectors(idx, b["init"], assigned, depth + 1)
                out |= inner if inner else {"whole"}
                found = True
            elif b and b["kind"] == "let" and b.get("init") is not None:
                out |= _selectors(idx, b["init"], assigned, depth + 1)
                found = True
            elif b and b["kind"] == "param":
                out.add("whole")
                found = True
    if not found:
        if any(x.get("k") in ("Ctor", "Struct") and (x.get("adt") or "").startswith(AST) for x in walk(rhs)):
            return {"generated"}
        top = strip_transparent(rhs)
        if top.get("k") == "Call" and not top.get("args"):
            return {"generated"}
    return out or {"whole"}


def _arm_variants(pat):
    """Expr variants named by an arm pattern (None when it is a catch-all)"""
    out = set()
    for n in walk(pat):
        if n.get("k") in ("PTupleStruct", "PStruct") and n.get("adt") == AST + "Expr" and n.get("variant"):
            out.add(n["variant"])
    return out


def r11_1(ctx):
    r = Rule("R11.1", "affine use: each embedded expression is copied into the output at most once per path (exceptions: identifiers/literals; v-model value <= 2, v-model argument <= 3)",
             "a second copy of a non-trivial expression is evaluated twice")
    seen = {}

    def ob(key, ok, loc, detail):
        c = seen.get(key, 0)
        seen[key] = c + 1
        r.ob(key if c == 0 else "%s #%d" % (key, c + 1), ok, loc, detail)

    # --- the children builder: per arm of the single-child dispatch
    ch = C.role_or_fail(ctx, r, "children_builder")
    if ch:
        r.saw(ch["path"])
        af = Affine(ch)
        for n in walk(ch["body"]):
            if n.get("k") == "Match" and any(_arm_variants(a["pat"]) for a in n["arms"]) and \
                    any(p.get("k") == "Arm" and "PSlice" in str([x.get("k") for x in walk(p["pat"])]) for p in af.idx.parents(n)):
                # scrutinee must be a view into the collected child list
                g = af.group_of_expr(n["scrut"])
                if g is None:
                    continue
                for a in n["arms"]:
                    variants = _arm_variants(a["pat"])
                    cnt = af.max_copies(a["body"], g)
                    trivial = bool(variants) and variants <= {"Ident", "Lit"}
                    key = "children builder: single child %s is copied at most once" % (pat_str(a["pat"])[:60])
                    if cnt <= 1:
                        ob(key, True, C.mloc(ch, a), "%d cop%s on the longest path" % (cnt, "y" if cnt == 1 else "ies"))
                    elif trivial:
                        ob(key, True, C.mloc(ch, a), "%d copies, but the arm only matches %s (evaluation of a bare identifier/literal has no effect)" % (cnt, sorted(variants)))
                    else:
                        ob(key, False, C.mloc(ch, a), "%d copies of the child expression reach the output on one path and the arm matches %s: the expression is evaluated more than once" % (cnt, sorted(variants) or "any expression"))
        # the per-child closure: each child expression is cloned once
        for n in walk(ch["body"]):
            if n.get("k") == "Closure" and n.get("params") and "JSXElementChild" in (n["params"][0].get("ty") or ""):
                for m in walk(n["body"]):
                    if m.get("k") == "Arm":
                        # bindings of type Box<Expr> in the arm pattern
                        for pb in walk(m["pat"]):
                            if pb.get("k") == "PBind" and _is_carrier_ty(pb.get("ty", "")):
                                g = af.group.get(pb["id"], (pb["id"], None))
                                cnt = af.max_copies(m["body"], (pb["id"], None)) if g == (pb["id"], None) else af.max_copies(m["body"], g)
                                ob("children builder: child `%s` of %s is copied once" % (pb["name"], pat_str(m["pat"])[:40]), cnt <= 1, C.mloc(ch, m), "%d" % cnt)
    # --- the attribute fold
    fold = C.role_or_fail(ctx, r, "attr_fold")
    if fold:
        r.saw(fold["path"])
        from .c13 import _fold_closure, _top_arms
        cl = _fold_closure(fold)
        af = Affine(fold)
        if cl is not None:
            for label, arm in _top_arms(cl):
                groups = {}
                for n in walk(arm["body"]):
                    for g, kind, node in af.events(n):
                        groups.setdefault(g, []).append((kind, node))
                for g, evs in sorted(groups.items(), key=lambda x: str(x[0])):
                    b = af.idx.binding.get(g[0])
                    nm = (b or {}).get("pat", {}).get("name", "?")
                    bty = (b or {}).get("pat", {}).get("ty", "")
                    if not _is_carrier_ty(bty) and "Directive" not in bty and "JSXAttr" not in bty and "SpreadElement" not in bty:
                        continue
                    # generated containers (props / merge_args accumulators) are not input carriers
                    if nm in ("props", "merge_args") or bty.startswith("alloc::vec::Vec<" + AST + "PropOrSpread") or bty.startswith("alloc::vec::Vec<" + AST + "Expr>"):
                        continue
                    cnt = af.max_copies(arm["body"], g)
                    allowed = 1
                    why = ""
                    if "VModelDirective" in bty and g[1] == "value":
                        allowed, why = 2, " (v-model target: prop/directive value + assignment target)"
                    elif "VModelDirective" in bty and g[1] in ("argument", "transformed_argument"):
                        allowed, why = 3, " (computed v-model argument: once per generated key)"
                    elif "VModelDirective" in bty and g[1] == "modifiers":
                        allowed, why = 2, " (generated constant object)"
                    label_g = "%s%s" % (nm, "." + g[1] if g[1] else "")
                    ob("attribute fold, %s: `%s` is copied at most %d time(s)" % (label, label_g, allowed), cnt <= allowed, C.mloc(fold, arm),
                       "%d on the longest path%s" % (cnt, why) if cnt <= allowed else "%d copies of `%s` reach the output on one path" % (cnt, label_g))
    # --- the directive parsers: the fields of the returned directive come from distinct parts of the attribute value
    for b in ctx.facts.hir:
        if b["crate"] != VISITOR_CRATE or b.get("mac") or not b["path"].startswith("directive::"):
            continue
        if not (b["inputs"] and b["inputs"][0] == "&%sJSXAttr" % AST):
            continue
        r.saw(b["path"])
        idx = HirIndex(b)
        assigned = {}      # local name -> list of rhs nodes
        for n in idx.nodes:
            if n.get("k") == "Assign" and local_of(n["l"]):
                assigned.setdefault(local_of(n["l"])[0], []).append(n["r"])
            if n.get("k") == "Let" and n["pat"].get("k") == "PBind" and n.get("init") is not None:
                assigned.setdefault(n["pat"]["name"], []).append(n["init"])
        for n in idx.nodes:
            if n.get("k") == "Struct" and (n.get("adt") or "").startswith("directive::") and n.get("adt", "").endswith("Directive"):
                fields = {f["name"]: f["e"] for f in n["fields"]}
                sels = {}
                for fname, fe in fields.items():
                    if fname in ("name", "modifiers"):
                        continue
                    roots = {x["res"]["name"] for x in walk(fe) if x.get("k") == "Path" and x["res"].get("r") == "local" and _is_carrier_ty((x.get("ty") or "").replace("core::option::Option<", ""))}
                    ss = set()
                    for rt in roots:
                        for rhs in assigned.get(rt, []):
                            ss |= _selectors(idx, rhs, assigned)
                    sels[fname] = ss
                names = sorted(sels)
                for i, a in enumerate(names):
                    for c in names[i + 1:]:
                        if {a, c} == {"argument", "transformed_argument"}:
                            continue
                        common = (sels[a] & sels[c]) - {"generated"}
                        ob("%s: fields `%s` and `%s` of the parsed directive come from different parts of the attribute value" % (b["name"], a, c), not common, C.mloc(b, n),
                           "%s: %s / %s: %s" % (a, sorted(sels[a]), c, sorted(sels[c])) if not common else "both take %s: the same expression is emitted twice" % sorted(common))
    return r


def r11_2(ctx):
    r = Rule("R11.2", "laziness: on component paths the child list reaches the output only under an arrow function (the slot thunk)",
             "children placed directly in the vnode call are evaluated at vnode creation")
    ch = C.role_or_fail(ctx, r, "children_builder")
    wr = C.role_or_fail(ctx, r, "wrapper")
    if not ch or not wr:
        return r
    r.saw(ch["path"])
    r.saw(wr["path"])
    idx = HirIndex(ch)
    # every ArrayLit built directly from the child list in the children builder must be on a !is_component path
    for n in walk(ch["body"]):
        if n.get("k") == "Struct" and n.get("adt") == AST + "ArrayLit":
            el = {f["name"]: f["e"] for f in n["fields"]}.get("elems")
            lo = local_of(el) if el is not None else None
            if lo and lo[0] == "elems":
                kt = idx.known_true(n)
                not_comp = any(isinstance(f, tuple) and expr_str(f[1]) == "is_component" for f in kt)
                key = "children builder: direct child array is only built for non-component hosts"
                c = sum(1 for o in r.obs if o["key"].startswith(key))
                r.ob(key + ("" if not c else " #%d" % (c + 1)), not_comp, C.mloc(ch, n), "under !is_component" if not_comp else "the child list is placed directly into the vnode call on a path where is_component may be true: slot content is evaluated eagerly")
    # in the wrapper the list's only use is inside ArrowExpr.body
    widx = HirIndex(wr)
    uses = []
    for n, ps in walk_with_parents(wr["body"]):
        if n.get("k") == "Path" and n["res"].get("r") == "local" and n["res"]["name"] == "elems":
            under_arrow = any(p.get("k") == "Struct" and p.get("adt") == AST + "ArrowExpr" for p in ps)
            uses.append((n, under_arrow))
    r.ob("wrapper: the child list is used exactly once, inside the slot thunk", len(uses) == 1 and uses[0][1], C.mloc(wr, uses[0][0]) if uses else C.mloc(wr, wr),
         "1 use under ArrowExpr.body" if (len(uses) == 1 and uses[0][1]) else "%d use(s), under an arrow: %s" % (len(uses), [u[1] for u in uses]))
    # the call-child arm: the temp is assigned inside the Cond test and the thunk returns the temp, not the call
    for n in walk(ch["body"]):
        if n.get("k") == "Arm" and "Call" in _arm_variants(n["pat"]):
            conds = [x for x in walk(n["body"]) if x.get("k") == "Struct" and x.get("adt") == AST + "CondExpr"]
            for cnd in conds:
                fs = {f["name"]: f["e"] for f in cnd["fields"]}
                test_has_assign = any(x.get("k") == "Struct" and x.get("adt") == AST + "AssignExpr" for x in walk(fs.get("test", {})))
                cons_is_temp = not any(x.get("k") == "MethodCall" and x["method"] == "clone" and "Expr" in (x.get("ty") or "") and local_of(x["recv"]) and local_of(x["recv"])[0] == "expr" for x in walk(fs.get("cons", {})))
                alt_uses_expr = any(x.get("k") == "Path" and x["res"].get("r") == "local" and x["res"]["name"] == "expr" for x in walk(fs.get("alt", {})))
                ok = test_has_assign and cons_is_temp and not alt_uses_expr
                r.ob("call child: evaluated once into a temporary inside the test; both branches use the temporary", ok, C.mloc(ch, cnd),
                     "Assign in test; cons/alt reference the temp" if ok else "test has assign: %s, cons is temp: %s, alt re-uses the call: %s" % (test_has_assign, cons_is_temp, alt_uses_expr))
    return r


ORDER_BREAKERS = re.compile(r"(core::iter::traits::iterator::Iterator::rev$|slice::<impl \[T\]>::(reverse|sort|sort_by|sort_by_key|sort_unstable|sort_unstable_by|sort_unstable_by_key|swap|rotate_left|rotate_right)$"
                            r"|alloc::vec::Vec::<T, A>::(swap_remove|dedup|dedup_by|dedup_by_key)$|DoubleEndedIterator::(rev|rfold|rfind|next_back)$|::rev$)")
LOWERING_LIST_TY = re.compile(r"alloc::vec::Vec<(swc_ecma_ast::(PropOrSpread|ExprOrSpread|Expr|JSXAttrOrSpread)|core::option::Option<swc_ecma_ast::ExprOrSpread>|directive::NormalDirective)>")


def r11_3(ctx):
    r = Rule("R11.3", "order preservation: no reversing / sorting / swapping API and no non-append insertion on the lists built from attributes and children",
             "a reordered list evaluates user expressions out of source order")
    roles = ["attr_fold", "children_builder", "directive_parser", "dedupe", "v_models_decoupler", "wrapper", "element_builder", "fragment_builder", "iife_builder"]
    bodies = []
    for role in roles:
        b = C.role(ctx, role)
        if b:
            bodies += C.family(ctx, b)
    for b in ctx.facts.mir:
        if b["crate"] == VISITOR_CRATE and b["path"].startswith("directive::") and b not in bodies:
            bodies.append(b)
    # the v-models rewrite lives in a VisitMut method over JSXOpeningElement
    for hb in C.visitor_methods(ctx):
        if "JSXOpeningElement" in (hb["inputs"][1] if len(hb["inputs"]) > 1 else ""):
            bodies += C.family(ctx, hb)
    n_calls = 0
    hits = 0
    for b in bodies:
        r.saw(b["path"])
        for i, t in calls(b):
            n_calls += 1
            name = callee_name(t)
            a0 = (t.get("arg_tys") or [""])[0]
            if ORDER_BREAKERS.search(name):
                hits += 1
                r.ob("%s calls %s" % (b["path"], name.split("::")[-1]), False, C.mloc(b, t), "order-changing operation in lowering code (%s)" % a0)
            elif name.endswith("Vec::<T, A>::insert") and LOWERING_LIST_TY.search(a0):
                hits += 1
                r.ob("%s inserts into %s" % (b["path"], a0[5:60]), False, C.mloc(b, t), "non-append insertion into a list built from JSX attributes / children")
            elif name.endswith("Vec::<T, A>::splice") and LOWERING_LIST_TY.search(a0):
                # allowed: the v-models splice at the removed index with an empty range (checked by R08.1 G3)
                r.ob("%s splices %s" % (b["path"], a0[5:60]), True, C.mloc(b, t), "v-models decoupling: splice(index..index) at the removed position (G3 of R08.1)")
    r.ob("scan for order-changing operations in lowering bodies", True, "-", "%d call terminators in %d bodies, %d hit(s)" % (n_calls, len(bodies), hits))
    # the three vnode arguments are a literal vector [tag, props, children]
    for role in ("element_builder", "fragment_builder"):
        b = C.role(ctx, role)
        if not b:
            continue
        ok = False
        for n in walk(b["body"]):
            if n.get("k") == "Array" and len(n["items"]) == 3 and all((x.get("ty") or "").endswith("ExprOrSpread") for x in n["items"]):
                tys = []
                for it in n["items"]:
                    calls_in_item = [x.get("callee", "").split("::")[-1] for x in walk(it) if x.get("k") in ("Call", "MethodCall") and (x.get("callee") or "").startswith("VueJsxTransformVisitor")]
                    tys.append(calls_in_item)
                ok = True
                r.ob("%s: vnode arguments are the literal [tag, props, children]" % role, True, C.mloc(b, n), "3-element vec!: %s" % tys)
        if not ok:
            r.ob("%s: vnode arguments are the literal [tag, props, children]" % role, None, C.mloc(b, b), "no 3-element literal found (not decided)")
    return r


def r11_4(ctx):
    r = Rule("R11.4", "flush before merge argument: pending props are moved into the merge-argument list before any later merge argument of the same attribute arm",
             "a merge argument pushed before the pending props evaluates later attributes first")
    fold = C.role_or_fail(ctx, r, "attr_fold")
    if not fold:
        return r
    from .c13 import _fold_closure, _top_arms
    cl = _fold_closure(fold)
    if cl is None:
        r.ob("fold closure", False, "-", "not found")
        return r
    r.saw(fold["path"])
    idx = HirIndex(fold)
    for label, arm in _top_arms(cl):
        pushes = []
        for n in walk(arm["body"]):
            if n.get("k") == "MethodCall" and n["method"] == "push" and local_of(n["recv"]) and local_of(n["recv"])[0] == "merge_args" and n["args"]:
                is_flush = any(x.get("k") == "Call" and (x.get("callee") or "").endswith("core::mem::take") for x in walk(n["args"][0]))
                pushes.append((n, is_flush))
        order = [f for n, f in pushes]
        non_flush = [n for n, f in pushes if not f]
        if not non_flush:
            continue
        for n in non_flush:
            # a flush push precedes it in source order within the arm, guarded only by non-emptiness of props (+ the option for spreads)
            before = [m for m, f in pushes if f and _precedes(arm["body"], m, n)]
            key = "%s: merge argument is preceded by a flush of the pending props" % label
            c = sum(1 for o in r.obs if o["key"].startswith(key))
            ok = False
            detail = ""
            mine = _conds(idx, n, arm)
            for fl in before:
                conds = _conds(idx, fl, arm)
                extra = {x for x in conds if x not in mine and not x.endswith("props.is_empty()")}
                if not extra:
                    ok = True
                    detail = "flush under %s" % sorted(conds)
                else:
                    detail = "the flush is additionally guarded by %s, which does not guard this merge argument: with that condition false the argument is pushed before the pending props" % sorted(extra)
            r.ob(key + ("" if not c else " #%d" % (c + 1)), ok, C.mloc(fold, n), detail if (ok or detail) else "this arm pushes a merge argument without first flushing the props collected so far")
    return r


def _precedes(root, a, b):
    for n in walk(root):
        if n is a:
            return True
        if n is b:
            return False
    return False


def _conds(idx, node, stop):
    from .c13 import _cond_keys
    return _cond_keys(idx, node, stop)


def r11_5(ctx):
    r = Rule("R11.5", "merging repeated class / style / listener attributes keeps every written value: values are appended, never compared with one another or dropped",
             "`class={next()} class={next()}` evaluates `next()` twice; treating equal-looking values as one changes how often user code runs")
    dd = C.role_or_fail(ctx, r, "dedupe")
    if not dd:
        return r
    r.saw(dd["path"])
    n = 0
    for x in walk(dd["body"]):
        sides = None
        if x.get("k") == "MethodCall" and x["method"] in ("eq_ignore_span", "eq", "ne") and x["args"]:
            sides = [x["recv"], x["args"][0]]
        elif x.get("k") == "Binary" and x.get("op") in ("==", "!="):
            sides = [x["l"], x["r"]]
        if sides and all("swc_ecma_ast::Expr" in ((strip_transparent(s_).get("ty") or s_.get("ty") or "")) for s_ in sides):
            n += 1
            r.ob("comparison of two attribute values #%d" % n, False, C.mloc(dd, x), "`%s`: whether a repeated value is kept depends on how it compares with an earlier one" % expr_str(x)[:80])
    r.ob("no value comparison in the de-duplication", n == 0, "-", "%d comparison(s) of attribute values" % n)
    return r


def r11_6(ctx):
    r = Rule("R11.6", "every written child reaches the children builder: the element and fragment builders hand it the node's own `children`, on every path",
             "children replaced by an empty list (because a prop is believed to override them) are never evaluated: a call written between the tags does not run")
    from .influence import flow_of
    cb = C.role_or_fail(ctx, r, "children_builder")
    if not cb:
        return r
    for role in ("element_builder", "fragment_builder"):
        b = C.role_or_fail(ctx, r, role)
        if not b:
            continue
        mb = C.mir_of(ctx, b)
        r.saw(b["path"])
        n = 0
        for fb in ctx.facts.mir_family(mb):
            fl = flow_of(ctx, fb)
            for i, t in calls(fb):
                if callee_name(t) != cb["path"] or len(t["args"]) < 2:
                    continue
                n += 1
                srcs = fl.op_sources(t["args"][1])
                roots = [x for x in srcs if x[0] in ("param", "upvar")]
                own = [x for x in roots if "children" in x[2] or "children" in str(x[1])]
                other = [x for x in srcs if x[0] in ("const", "agg", "unknown") or (x[0] in ("param", "upvar") and x not in own)]
                r.ob("%s: the children builder receives the node's own children" % role + ("" if n == 1 else " #%d" % n), bool(own) and not other, C.mloc(fb, t),
                     "argument = <node>.children" if own and not other else "the list handed to the children builder can also be %s: on that path the written children are dropped" % sorted(str(x[:2]) for x in other)[:3])
        if n == 0:
            r.ob("%s calls the children builder" % role, False, C.mloc(mb, mb), "no call of the children builder: the children of the node are never lowered")
    return r


def rules(ctx):
    from ..engine import only
    from . import c01, c03
    out = [__import__('vjsx.rules.c10', fromlist=['x']).field_ratchet('evaluation count / order must not depend on earlier elements'), r11_1, r11_2, r11_3, r11_4, r11_5, r11_6, c03.r03_4,
           only(c01.r01_1, lambda k: k.startswith(("component predicate", "the Fragment name")), "which hosts are components: only their children are deferred into slot functions")]
    if ctx.tier == "thorough":
        from . import controls
        out.append(controls.callee_pattern_control("R11.3", ORDER_BREAKERS, ["reversed", "reversed_in_place"]))
    return out


EXPLANATION = (
    "R11.1 (A8 on the typed HIR): input-expression carriers are grouped by aliasing (a binding that destructures a view of another "
    "carrier joins its group); per group the maximal number of copies created on one path (clones + the by-value move of an owned "
    "carrier; sequence = sum, branches = max) must be <= 1, with the property's own exceptions keyed by type (VModelDirective.value <= 2, "
    ".argument <= 3) and arms that only match Expr::Ident / Expr::Lit. R11.2: the collected child list is placed directly into an "
    "ArrayLit only under !is_component; in the wrapper its single use is below ArrowExpr.body; the call-child Cond assigns the temp in "
    "its test and both branches use the temp. R11.3: no order-changing API on the lists built from attributes and children, and the "
    "vnode arguments are a literal [tag, props, children]. R11.4: every non-flush push to the merge-argument list is preceded in its arm "
    "by the flush of the pending props."
)
ASSUMPTIONS = ["borrowck forbids two moves of one owned value, so duplication needs a clone-like call (clone/to_owned/to_vec/cloned/extend_from_slice)",
               "actual evaluation traces and getters on user objects are not modelled"]
TRUSTED = ["rustc nightly HIR with types", "Rust move semantics"]
LEVEL = "other"
LEVEL_TEXT = ("Per-path copy counting of every input-expression carrier in the lowering bodies (affine-use analysis on the typed tree), "
              "laziness and order as structural zero-count / template rules. Necessary conditions of once / in order / lazily.")
LEVEL_NOTE = "Trusted: rustc HIR types, move semantics. Not decided: runtime evaluation traces."
TECHNIQUE = "affine-use (copy counting with alias groups) on typed HIR + zero-count order rule on resolved callees + template checks"
