"""A5: which visitor fields does a branch depend on; which blocks are controlled by which field tests."""
from .mirflow import Flow, self_field_of
from . import common as C
from ..cfg import place_of


def flow_of(ctx, body):
    key = ("flow", body["crate"], body["path"], body.get("dp"))
    if key not in ctx.cache:
        ctx.cache[key] = Flow(body)
    return ctx.cache[key]


def switch_fields(ctx, body, bb):
    """self-field paths the switch terminating block bb depends on (data dependence)"""
    t = body["blocks"][bb].get("term") or {}
    if t.get("k") != "switch":
        return set()
    fl = flow_of(ctx, body)
    return self_field_of(fl.op_deps(t["discr"]))


def switch_deps(ctx, body, bb):
    t = body["blocks"][bb].get("term") or {}
    if t.get("k") != "switch":
        return set()
    return flow_of(ctx, body).op_deps(t["discr"])


def controlling_fields(ctx, body, bb):
    """{field path: [(branch_block, taken_succ)]} for every field test that (transitively) controls bb"""
    g = C.cfg_of(ctx, body)
    out = {}
    for (a, s) in g.transitive_control_branches(bb):
        for f in switch_fields(ctx, body, a):
            out.setdefault(f, []).append((a, s))
    return out


def controlling_deps(ctx, body, bb):
    """all dependence sources of all branches controlling bb"""
    g = C.cfg_of(ctx, body)
    out = set()
    for (a, s) in g.transitive_control_branches(bb):
        out |= switch_deps(ctx, body, a)
    return out


# ---- generic effect listing for a set of blocks ---------------------------------------------
import re as _re
from ..cfg import calls as _calls, callee_name as _callee_name
from .mirflow import self_field_of as _sfo

_ITER_PTR = _re.compile(r"^(core::slice::iter::Iter<|core::iter::|indexmap::set::iter::|indexmap::map::iter::|core::str::|alloc::collections::btree::map::Iter<)")
_SHARED_EFFECT = _re.compile(r"(Handler::|comments::Comments::(add|take|move)|swc_common::Mark::new$)")


def reads_index(mb):
    out = {}

    def note(o, bb):
        if isinstance(o, dict):
            if "l" in o and "s" in o:
                out.setdefault(o["l"], set()).add(bb)
                return
            for v in o.values():
                note(v, bb)
        elif isinstance(o, list):
            for v in o:
                note(v, bb)
    for blk in mb["blocks"]:
        if blk.get("cleanup"):
            continue
        for s in blk["stmts"]:
            if s["k"] == "assign":
                note(s["rv"], blk["i"])
        t = blk.get("term") or {}
        if t.get("k") == "call":
            note(t["args"], blk["i"])
        elif t.get("k") == "switch":
            note(t["discr"], blk["i"])
    return out


def effects_in(ctx, mb, blocks):
    """effects located in `blocks`: list of dict(kind, bb, node, what, detail)
    kinds: 'mutcall' (&mut argument), 'store' (through a reference), 'localcall', 'sharedeffect', 'escape' (non-bool local defined
    here and read outside / returned), 'closure' (closure created here)"""
    fl = flow_of(ctx, mb)
    reads = reads_index(mb)
    tys = {l["i"]: l["ty"] for l in mb["locals"]}
    blocks = set(blocks)
    out = []
    for b in sorted(blocks):
        blk = mb["blocks"][b]
        if blk.get("cleanup"):
            continue
        for s in blk["stmts"]:
            if s["k"] != "assign":
                continue
            lhs = s["lhs"]
            if s["rv"].get("rk") == "agg" and s["rv"].get("agg") == "closure":
                out.append({"kind": "closure", "bb": b, "node": s, "what": s["rv"]["def"], "ty": ""})
            projs = lhs.get("p") or []
            if "*" in projs or lhs.get("upvar"):
                out.append({"kind": "store", "bb": b, "node": s, "what": lhs["s"], "ty": lhs.get("ty", ""),
                            "fields": {f for f in _sfo(fl.place_sources(lhs))}})
                continue
            l = lhs["l"]
            outside = reads.get(l, set()) - blocks
            if (outside or l == 0) and tys.get(l, "") not in ("bool", "()"):
                out.append({"kind": "escape", "bb": b, "node": s, "what": lhs["s"], "ty": tys.get(l, "")})
        t = blk.get("term") or {}
        if t.get("k") == "call":
            name = _callee_name(t)
            is_local = (mb["crate"], name) in ctx.facts.mir_by_path
            for i, (a, ty) in enumerate(zip(t["args"], t.get("arg_tys", []))):
                if ty.startswith("&mut ") and not _ITER_PTR.match(ty[5:]):
                    out.append({"kind": "mutcall", "bb": b, "node": t, "what": name, "ty": ty,
                                "fields": {f for f in _sfo(fl.op_sources(a))}})
            if is_local:
                out.append({"kind": "localcall", "bb": b, "node": t, "what": name, "ty": ""})
            if _SHARED_EFFECT.search(name):
                out.append({"kind": "sharedeffect", "bb": b, "node": t, "what": name, "ty": ""})
            d = t["dest"]
            outside = reads.get(d["l"], set()) - blocks
            if (outside or d["l"] == 0) and not d.get("p") and tys.get(d["l"], "") not in ("bool", "()"):
                out.append({"kind": "escape", "bb": b, "node": t, "what": "result of " + name, "ty": tys.get(d["l"], "")})
    return out


def dependent_blocks(g, test_blocks):
    """blocks transitively control-dependent on any of test_blocks in CFG g"""
    out = set()
    tests = set(test_blocks)
    for b in g.reach:
        for (a, s) in g.transitive_control_branches(b):
            if a in tests:
                out.add(b)
                break
    return out
