"""A5: which visitor fields does a branch depend on; which blocks are controlled by which field tests."""
from .mirflow import Flow, self_field_of
from . import common as C
from ..cfg import place_of


def flow_of(ctx, body):
    key = ("flow", body["crate"], body["path"], body.get("dp"))
    if key not in ctx.cache:
        ctx.cache[key] = Flow(body)
    return ctx.cache[key]


def switch_fields(ctx, body, bb):
    """self-field paths the switch terminating block bb depends on (data dependence)"""
    t = body["blocks"][bb].get("term") or {}
    if t.get("k") != "switch":
        return set()
    fl = flow_of(ctx, body)
    return self_field_of(fl.op_deps(t["discr"]))


def switch_deps(ctx, body, bb):
    t = body["blocks"][bb].get("term") or {}
    if t.get("k") != "switch":
        return set()
    return flow_of(ctx, body).op_deps(t["discr"])


def controlling_fields(ctx, body, bb):
    """{field path: [(branch_block, taken_succ)]} for every field test that (transitively) controls bb"""
    g = C.cfg_of(ctx, body)
    out = {}
    for (a, s) in g.transitive_control_branches(bb):
        for f in switch_fields(ctx, body, a):
            out.setdefault(f, []).append((a, s))
    return out


def controlling_deps(ctx, body, bb):
    """all dependence sources of all branches controlling bb"""
    g = C.cfg_of(ctx, body)
    out = set()
    for (a, s) in g.transitive_control_branches(bb):
        out |= switch_deps(ctx, body, a)
    return out
