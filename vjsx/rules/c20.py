"""C20 — resolveType augments only Vue's defineComponent and never overrides the user."""
import re
from ..facts import AST, VISITOR_CRATE, walk, walk_with_parents, strip_transparent, field_path, const_str, local_of
from ..engine import Rule
from ..cfg import calls, callee_name, place_of, op_const
from . import common as C
from .hirtext import expr_str, pat_str
from .mirflow import self_field_of
from .influence import flow_of, switch_fields
from .state import first_field
from .hirflow import HirIndex, conjuncts, disjuncts


def _true_succ(mb, fl, blk):
    """for a switch on a bool: the successor taken when the underlying predicate is true; returns (pred_desc, succ) list"""
    t = blk.get("term") or {}
    if t.get("k") != "switch":
        return None
    p = place_of(t["discr"])
    if p is None or p.get("p"):
        return None
    neg = False
    l = p["l"]
    for _ in range(6):
        defs = fl.defs.get(l, [])
        if len(defs) != 1:
            break
        kind, bb, d = defs[0]
        if kind == "call":
            zero = [tg for v, tg in t["targets"] if v == 0]
            true_succ = t["otherwise"] if not neg else (zero[0] if zero else None)
            return ("call", callee_name(d), d, true_succ)
        rv = d["rv"]
        if rv.get("rk") == "unop" and rv.get("op") == "Not":
            neg = not neg
            q = place_of(rv["a"])
            if q is None:
                break
            l = q["l"]
            continue
        if rv.get("rk") == "use":
            q = place_of(rv["op"])
            if q is None:
                break
            if q.get("p"):
                fields = self_field_of(fl.place_sources(q))
                zero = [tg for v, tg in t["targets"] if v == 0]
                true_succ = t["otherwise"] if not neg else (zero[0] if zero else None)
                return ("field", fields, d, true_succ)
            l = q["l"]
            continue
        break
    return None


def r20_1(ctx):
    r = Rule("R20.1", "gates: every augmentation / extraction call is dominated by the true edge of the resolve_type test and of the defineComponent identity test",
             "an ungated call augments arbitrary calls or runs with resolveType off")
    gated = {}
    for role in ("injector", "props_extractor", "emits_extractor"):
        b = C.role_or_fail(ctx, r, role)
        if b:
            gated[b["path"]] = role
    dc = C.role_or_fail(ctx, r, "dc_pred")
    if not dc:
        return r
    n_sites = 0
    for hb in C.visitor_methods(ctx):
        mb = C.mir_of(ctx, hb)
        if mb is None:
            continue
        sites = [(i, t) for i, t in calls(mb) if callee_name(t) in gated]
        if not sites:
            continue
        r.saw(mb["path"])
        g = C.cfg_of(ctx, mb)
        fl = flow_of(ctx, mb)
        rt_true, dc_true = [], []
        for blk in mb["blocks"]:
            ts = _true_succ(mb, fl, blk)
            if not ts:
                continue
            if ts[0] == "field" and any(f.strip(".") == "options.resolve_type" for f in ts[1]) and ts[3] is not None:
                rt_true.append(ts[3])
            if ts[0] == "call" and ts[1] == dc["path"] and ts[3] is not None:
                dc_true.append((ts[3], ts[2]))
        for i, t in sites:
            n_sites += 1
            role = gated[callee_name(t)]
            key = "%s: call of the %s" % (hb["name"], role)
            c = sum(1 for o in r.obs if o["key"].startswith(key))
            if c:
                key += " #%d" % (c + 1)
            ok_rt = any(g.dominates(s, i) for s in rt_true)
            ok_dc = any(g.dominates(s, i) for s, d in dc_true)
            if ok_rt and ok_dc:
                r.ob(key, True, C.mloc(mb, t), "dominated by resolve_type == true and by %s(..) == true" % dc["name"])
            else:
                r.ob(key, False, C.mloc(mb, t), "not dominated by %s" % " and ".join(x for x, ok in (("the resolve_type test", ok_rt), ("the defineComponent identity test", ok_dc)) if not ok))
    # the gated functions are not called from anywhere else
    nodes, edges = C.call_graph(ctx)
    for path, role in gated.items():
        callers = sorted({k[1] for k, es in edges.items() if (VISITOR_CRATE, path) in es})
        bad = [c for c in callers if "VisitMut>::visit_mut_" not in c and c not in gated]
        r.ob("callers of the %s" % role, not bad, "-", "called only from VisitMut methods (%s)" % ", ".join(c.split("::")[-1] for c in callers) if not bad else "also called from %s" % bad)
    if n_sites == 0:
        r.ob("gated call sites exist", False, "-", "no call of the injector / extractors found in VisitMut methods")
    return r


def r20_2(ctx):
    r = Rule("R20.2", "identity: callee is a plain identifier named defineComponent whose syntax context equals the one recorded from `import { defineComponent } from 'vue'`",
             "without the scope / source / alias conjunct a same-named local function or another module's export is augmented")
    dc = C.role_or_fail(ctx, r, "dc_pred")
    if not dc:
        return r
    r.saw(dc["path"])
    has_name = False
    has_ctxt = False
    plain = False
    for n in walk(dc["body"]):
        if n.get("k") == "Binary" and n.get("op") == "==":
            sides = [strip_transparent(n["l"]), strip_transparent(n["r"])]
            if any(const_str(x) == "defineComponent" for x in sides) and any(x.get("k") == "Field" and x["name"] == "sym" for x in sides):
                has_name = True
            if any(x.get("k") == "Field" and x["name"] == "ctxt" for x in sides):
                # the other side must come from self.define_component
                other = [x for x in sides if not (x.get("k") == "Field" and x["name"] == "ctxt")]
                has_ctxt = True if other else False
        if n.get("k") == "MethodCall" and n["method"] in ("as_ident",):
            plain = True
        if n.get("k") in ("PTupleStruct",) and n.get("adt") == AST + "Expr" and n.get("variant") == "Ident":
            plain = True
    member = [n for n in walk(dc["body"]) if (n.get("k") == "PTupleStruct" and n.get("adt") == AST + "Expr" and n.get("variant") in ("Member", "SuperProp", "OptChain", "Call"))
              or (n.get("k") == "PStruct" and n.get("adt") in (AST + "MemberExpr", AST + "OptChainExpr"))
              or (n.get("k") == "MethodCall" and n.get("method") in ("as_member", "as_mut_member", "as_opt_chain"))]
    reads_dc = any(field_path(strip_transparent(x)) == "self.define_component" for x in walk(dc["body"]) if x.get("k") == "Field")
    if not reads_dc:
        # the recorded context may be handed in as a parameter: then every caller must pass self.define_component there
        pi = [i for i, t in enumerate(dc["inputs"]) if "SyntaxContext" in t]
        sites = [n for hb in ctx.facts.hir if hb["crate"] == VISITOR_CRATE for n in walk(hb["body"])
                 if n.get("k") in ("Call", "MethodCall") and n.get("callee") == dc["path"]]
        if len(pi) == 1 and sites:
            def arg(n):
                a = ([n["recv"]] if n.get("k") == "MethodCall" else []) + list(n["args"])
                return a[pi[0]] if pi[0] < len(a) else None
            reads_dc = all(arg(n) is not None and field_path(strip_transparent(arg(n))) == "self.define_component" for n in sites)
    r.ob("predicate compares the callee symbol with \"defineComponent\"", has_name, C.mloc(dc, dc), "sym == \"defineComponent\"" if has_name else "no comparison of the symbol with the constant")
    r.ob("predicate compares the callee's syntax context with the recorded import", has_ctxt and reads_dc, C.mloc(dc, dc),
         "ctxt == self.define_component" if (has_ctxt and reads_dc) else "the scope comparison is missing: any `defineComponent` in any scope matches once the import exists")
    r.ob("callee must be a plain identifier", plain and not member, C.mloc(dc, member[0]) if member else C.mloc(dc, dc),
         "as_ident / Expr::Ident only" if plain and not member else ("a member / chained callee is accepted as well: `other.defineComponent(..)` of any object that shares the recorded syntax context is augmented" if member else "member / other callees are not excluded"))
    # the writer of define_component
    writers = []
    for hb in ctx.facts.hir:
        if hb["crate"] != VISITOR_CRATE or hb.get("mac") or hb["name"] == "new":
            continue
        for n in walk(hb["body"]):
            if n.get("k") == "Assign" and field_path(strip_transparent(n["l"])) == "self.define_component":
                rhs = strip_transparent(n["r"])
                if rhs.get("k") == "Field" and rhs["name"] == "define_component" and local_of(rhs["e"]) is not None:
                    continue    # hand-over of the pre-pass's record to the visitor (R16.4 checks where it happens); not a new fact
                lo = local_of(rhs)
                if lo is not None:
                    # the same hand-over through a destructuring `let Collector { define_component, .. } = collector;`
                    from .hirflow import HirIndex as _HI
                    b = _HI(hb).binding.get(lo[1])
                    if b and b["kind"] == "let" and b.get("path") and str(b["path"][-1][-1]) == "define_component" and b["path"][-1][0] == "field" \
                            and b.get("init") is not None and local_of(strip_transparent(b["init"])) is not None:
                        continue
                writers.append((hb, n))
    if len(writers) != 1:
        r.ob("define_component has exactly one writer", False, "-", "%d writer(s)" % len(writers))
        return r
    hb, wn = writers[0]
    # the record is only ever set: an import declaration that does not name defineComponent must not clear what an earlier one recorded
    rhs = strip_transparent(wn["r"])
    only_set = rhs.get("k") == "Ctor" and rhs.get("variant") == "Some"
    r.ob("the recorded binding is only ever set (Some(..)), never overwritten with the outcome of one declaration's search", only_set, C.mloc(hb, wn),
         "self.define_component = Some(ctxt)" if only_set else "`%s` is stored as it is: `import type { X } from 'vue'` after the defineComponent import resets the record to None" % expr_str(rhs)[:80])
    r.saw(hb["path"])
    idx = HirIndex(hb)
    # (a) source test: an equality comparison of `.src.value` with "vue" that gates the write
    src_ok = False
    src_detail = "no `src.value == \"vue\"` test guards the write"
    facts = idx.known_true(wn)
    for fct in facts:
        f = fct[1] if isinstance(fct, tuple) else fct
        neg = isinstance(fct, tuple)
        if f.get("k") == "Binary" and f.get("op") in ("==", "!="):
            sides = [strip_transparent(f["l"]), strip_transparent(f["r"])]
            if any(const_str(x) == "vue" for x in sides) and any((field_path(x) or "").endswith(".src.value") for x in sides):
                eq_holds = (f["op"] == "==" and not neg) or (f["op"] == "!=" and neg)
                if eq_holds:
                    src_ok = True
                    src_detail = "write happens only when import_decl.src.value == \"vue\""
        for x in walk(f):
            if x.get("k") == "MethodCall" and x["method"] in ("starts_with", "contains", "ends_with") and any(const_str(a) and "vue" in const_str(a) for a in x["args"]):
                src_detail = "the source is matched with %s(\"%s\"), not compared for equality with \"vue\"" % (x["method"], const_str(x["args"][0]))
    r.ob("define_component is recorded only for imports from exactly 'vue'", src_ok, C.mloc(hb, wn), src_detail)
    # (b) specifier shape: Named { local, imported: None } and local.sym == "defineComponent"
    named_none = False
    sym_cmp = False
    for n in walk(hb["body"]):
        if n.get("k") == "PStruct" and n.get("adt") == AST + "ImportNamedSpecifier":
            for f in n["fields"]:
                if f["name"] == "imported":
                    p = f["p"]
                    if (p.get("k") == "PPath" and p["res"].get("variant") == "None") or (p.get("k") == "PTupleStruct" and p.get("variant") == "None"):
                        named_none = True
        if n.get("k") == "Binary" and n.get("op") == "==":
            sides = [strip_transparent(n["l"]), strip_transparent(n["r"])]
            if any(const_str(x) == "defineComponent" for x in sides) and any(x.get("k") == "Field" and x["name"] == "sym" for x in sides):
                sym_cmp = True
    # ... and every place that yields the binding's context sits under such a pattern (no second arm for `imported: Some(..)`)
    idxw = HirIndex(hb)
    for x in idxw.nodes:
        if x.get("k") == "Field" and x["name"] == "ctxt" and x is not strip_transparent(wn["l"]):
            pats = [pat_str(p_["pat"]) for p_ in idxw.parents(x) if p_.get("k") == "Arm"]
            pats += [pat_str(f["pat"]) for f in idxw.known_true(x) if not isinstance(f, tuple) and f.get("k") == "LetExpr"]
            spec = [p_ for p_ in pats if "ImportNamedSpecifier(" in p_ or "Named(" in p_]
            foreign = [p_ for p_ in pats if re.search(r"Namespace\(|ImportStarAsSpecifier|Default\(|ImportDefaultSpecifier", p_)]
            if foreign:
                r.ob("only a named specifier records the binding", False, C.mloc(hb, x), "the context is also taken under `%s`: a namespace / default import is not the defineComponent binding, and every top-level binding shares its syntax context" % foreign[0][:80])
            if spec and not any("imported: None" in p_ for p_ in spec):
                named_none = False
                r.ob("every specifier form that records the binding is un-aliased", False, C.mloc(hb, x), "the context is also taken under `%s`" % spec[0][:80])
    r.ob("only an un-aliased named specifier counts (imported: None)", named_none, C.mloc(hb, hb), "pattern ImportNamedSpecifier { imported: None, .. }" if named_none else "aliased imports (`defineComponent as x` / `x as defineComponent`) are not excluded")
    r.ob("the specifier's local name is compared with \"defineComponent\"", sym_cmp, C.mloc(hb, hb), "local.sym == \"defineComponent\"" if sym_cmp else "missing")
    return r


def r20_5(ctx):
    r = Rule("R20.5", "nothing is inferred for an option the user wrote: the props / emits extractors run only after the existing-key test for that option failed",
             "inferring first and discarding afterwards leaves imports (mergeDefaults) and diagnostics behind for a call that is not changed, and is not idempotent")
    want = {"props_extractor": "props", "emits_extractor": "emits"}
    n = 0
    for hb in C.visitor_methods(ctx):
        idx = None
        for x in walk(hb["body"]):
            if x.get("k") not in ("Call", "MethodCall"):
                continue
            for role, opt in want.items():
                b = C.role(ctx, role)
                if b is None or x.get("callee") != b["path"]:
                    continue
                idx = idx or HirIndex(hb)
                n += 1
                r.saw(hb["path"])
                ok = False
                seen = []
                for f in idx.known_true(x):
                    if not isinstance(f, tuple):
                        continue
                    e = strip_transparent(f[1])
                    seen.append(expr_str(e)[:50])
                    if e.get("k") in ("Call", "MethodCall") and (e.get("ty") or "") == "bool" and any(const_str(a) == opt for a in e["args"]):
                        ok = True
                    # ... and on nothing else the user wrote: an explicit `props` must not switch the inference of `emits` off (nor the reverse)
                    others = [o for o in want.values() if o != opt]
                    if e.get("k") in ("Call", "MethodCall") and (e.get("ty") or "") == "bool" and any(const_str(a) in others for a in e["args"]):
                        r.ob("%s: %s does not depend on the other option being written" % (hb["name"], role), False, C.mloc(hb, x),
                             "reached only when the options have no `%s` either: writing one option suppresses the inference of the other" % [const_str(a) for a in e["args"] if const_str(a) in others][0])
                r.ob("%s: %s runs only when the options have no `%s`" % (hb["name"], role, opt), ok, C.mloc(hb, x),
                     "under the failed test %s" % [t for t in seen if opt in t][:1] if ok else "no failed existing-key test for `%s` is known at this call (negated facts here: %s)" % (opt, seen[:3]))
    r.ob("extractor call sites examined", n > 0, "-", "%d site(s)" % n)
    return r


KEYED_PROPS = {"KeyValue", "Getter", "Setter", "Method"}


def r20_3(ctx):
    r = Rule("R20.3", "user wins: spread argument lists are left alone; an existing key in any form suppresses the injection; the injected key precedes any spread of user options",
             "a later duplicate key or a key after a spread overrides what the user wrote")
    inj = C.role_or_fail(ctx, r, "injector")
    if not inj:
        return r
    r.saw(inj["path"])
    idx = HirIndex(inj)
    body = inj["body"]
    # (a) spread-argument guard precedes every write
    guard = None
    for st in body["stmts"] if body.get("k") == "Block" else []:
        if st.get("k") == "If" and any(x.get("k") == "Ret" for x in walk(st["then"])):
            if any(x.get("k") == "Field" and x["name"] == "spread" for x in walk(st["cond"])):
                guard = st
                break
        # a write before the guard?
        if any(x.get("k") == "MethodCall" and x["method"] in ("push", "insert", "remove") for x in walk(st)):
            break
    # ... and only the injector writes to the argument list of a call it was handed: a write elsewhere is not behind this guard
    from .mirflow import mut_events
    from .influence import flow_of as _flow_of
    fam = {b["path"] for b in ctx.facts.mir_family(C.mir_of(ctx, inj))} if C.mir_of(ctx, inj) is not None else set()
    n_out = 0
    for mb in ctx.facts.mir:
        if mb["crate"] != VISITOR_CRATE or mb.get("mac") or mb["path"] in fam:
            continue
        for e in mut_events(mb, _flow_of(ctx, mb)):
            if e["kind"] == "call" and e.get("arg_ty", "").startswith("&mut alloc::vec::Vec<%sExprOrSpread>" % AST) and \
                    any(x[0] == "param" and x[1] >= 2 and x[2].replace("*", "").endswith(".args") for x in e["sources"]):
                n_out += 1
                r.ob("%s: %s on the argument list of a visited call" % (mb["path"], e["callee"].split("::")[-1]), False, C.mloc(mb, e["node"]),
                     "the argument list of a user call is written outside the injector: neither its spread guard nor its existing-key scan applies here")
    r.ob("only the injector writes to the argument list of a visited call", n_out == 0, "-", "no other body mutates `<visited call>.args`" if n_out == 0 else "%d write(s) elsewhere" % n_out)
    r.ob("spread argument list is left alone", guard is not None, C.mloc(inj, guard or inj), "early return on a spread argument, before any write" if guard else "no early return on `.spread.is_some()` before the first write")
    if guard is not None:
        # ... wherever in the list the spread stands: the test ranges over the arguments, it is not a look at one position
        t = expr_str(guard["cond"])
        over_all = bool(re.search(r"\.args\.iter\(\)\.(any|find|position)\(", t)) or ("args.first()" in t and "args.get(1)" in t) or ("args.get(0)" in t and "args.get(1)" in t)
        lo = None
        for x in walk(guard["cond"]):
            if x.get("k") == "Path" and x["res"].get("r") == "local":
                lo = x["res"]
        if not over_all and lo is not None:
            bd = idx.binding.get(lo["id"])
            if bd and bd.get("init") is not None:
                ti = expr_str(bd["init"])
                over_all = bool(re.search(r"\.args\.iter\(\)\.(any|find|position)\(", ti))
                t = t + " where " + lo["name"] + " = " + ti
        r.ob("the spread test covers the whole argument list", over_all, C.mloc(inj, guard),
             t[:120] if over_all else "`%s` looks at one position only: `defineComponent(...args)` still gets options appended" % t[:100])
    # (b) non-literal arm: [KeyValue(injected), Spread(user)] in this order
    found_b = False
    for n in walk(body):
        if n.get("k") == "Struct" and n.get("adt") == AST + "ObjectLit":
            props = {f["name"]: f["e"] for f in n["fields"]}.get("props")
            if props is None:
                continue
            elems = _vec_elems(props)
            kinds = []
            for e in elems:
                es = strip_transparent(e)
                if es.get("k") == "Ctor" and es.get("adt") == AST + "PropOrSpread":
                    kinds.append(es.get("variant"))
            if "Spread" in kinds:
                found_b = True
                ok = kinds.index("Spread") > 0 and all(k == "Prop" for k in kinds[:kinds.index("Spread")]) and "Prop" not in kinds[kinds.index("Spread"):]
                r.ob("wrapping a non-literal options expression: injected key before the spread", ok, C.mloc(inj, n), "object literal is [%s]" % ", ".join(kinds))
    if not found_b:
        r.ob("wrapping a non-literal options expression: injected key before the spread", None, C.mloc(inj, inj), "no ObjectLit with a Spread is constructed (different strategy: not decided)")
    # (c) literal arm: existing-key scan + insertion before the first spread
    scan = None
    scan_call = None     # the scan may live in a local predicate that the injector consults first: `if has_option(call, name) { return }`
    scan_body = body
    for n in walk(body):
        if n.get("k") == "MethodCall" and n["method"] == "any" and n["args"] and n["args"][0].get("k") == "Closure":
            if "PropOrSpread" in (strip_transparent(n["recv"]).get("ty") or "") or any("PropOrSpread" in (x.get("ty") or "") for x in walk(n["recv"])):
                scan = n
    def _whole_list(sc):
        base = sc["recv"]
        while strip_transparent(base).get("k") == "MethodCall":
            if strip_transparent(base)["method"] in ("skip", "take", "skip_while", "take_while", "rev", "filter", "step_by"):
                return False
            base = strip_transparent(base)["recv"]
        return strip_transparent(base).get("k") != "Index"
    if scan is None:
        for st in body["stmts"] if body.get("k") == "Block" else []:
            if st.get("k") == "If" and st.get("else") is None and any(x.get("k") == "Ret" for x in walk(st["then"])):
                c = strip_transparent(st["cond"])
                hb2 = ctx.facts.hir_by_path.get((inj["crate"], c.get("callee"))) if c.get("k") in ("Call", "MethodCall") else None
                if hb2 is not None and hb2["output"] == "bool":
                    for n in walk(hb2["body"]):
                        if n.get("k") == "MethodCall" and n["method"] == "any" and n["args"] and n["args"][0].get("k") == "Closure" and \
                                any("PropOrSpread" in (x.get("ty") or "") for x in walk(n["recv"])):
                            scan, scan_call, scan_body = n, c, hb2["body"]
                            r.saw(hb2["path"])
    if scan is None:
        other = [x for x in walk(body) if x.get("k") == "MethodCall" and x["method"] in ("all", "find", "find_map", "filter", "contains", "iter", "for_each")
                 and any("PropOrSpread" in (y.get("ty") or "") for y in walk(x["recv"]))]
        loops = [x for x in walk(body) if x.get("k") == "Loop"]
        if other or loops:
            r.ob("existing-key scan", None, C.mloc(inj, inj), "the existing properties are examined, but not through `.any(..)`: shape not recognised (not decided)")
        else:
            r.ob("existing-key scan", False, C.mloc(inj, inj), "the existing properties of the options literal are never examined before the key is added")
    else:
        cl = scan["args"][0]
        variants = set()
        keyforms = set()
        for x in walk(cl["body"]):
            if x.get("k") in ("PTupleStruct", "PStruct") and x.get("adt") == AST + "Prop" and x.get("variant"):
                variants.add(x["variant"])
            if x.get("k") in ("PTupleStruct", "PStruct") and x.get("adt") == AST + "PropName" and x.get("variant"):
                keyforms.add(x["variant"])
            if x.get("k") == "MethodCall" and x["method"] in ("as_key_value",):
                variants.add("KeyValue")
            if x.get("k") == "MethodCall" and x["method"] in ("as_ident",):
                keyforms.add("Ident")
        # key forms may live in a helper closure bound by let
        for x in walk(scan_body):
            if x.get("k") in ("PTupleStruct", "PStruct") and x.get("adt") == AST + "PropName" and x.get("variant"):
                keyforms.add(x["variant"])
        need_v = {"KeyValue", "Method", "Getter", "Shorthand"}
        ok_v = need_v <= variants
        ok_k = {"Ident", "Str"} <= keyforms
        r.ob("existing-key scan looks at every property of the options literal", _whole_list(scan), C.mloc(inj, scan),
             "props.iter().any(..)" if _whole_list(scan) else "the scan runs over a part of the property list only (`%s`): a key outside it is not seen, the option is injected again" % expr_str(scan["recv"])[:60])
        r.ob("existing-key scan covers every key-bearing property form", ok_v, C.mloc(inj, scan), "Prop variants examined: %s" % sorted(variants) if ok_v else "Prop variants examined: %s — %s would get a duplicate, later (winning) key" % (sorted(variants), sorted(need_v - variants)))
        r.ob("existing-key scan matches identifier and string keys", ok_k, C.mloc(inj, scan), "PropName forms: %s" % sorted(keyforms))
        # the scan and the write look at the same object: the second argument itself. Neither side looks through wrappers (`as const`,
        # parentheses, ..) unless the other does: Expr variants matched / local functions handing back an `&mut Expr` must agree
        def expr_forms(bd):
            return {x.get("variant") for x in walk(bd) if x.get("k") in ("PTupleStruct", "PStruct") and x.get("adt") == AST + "Expr" and x.get("variant")}
        def expr_helpers(bd):
            out_ = set()
            for x in walk(bd):
                if x.get("k") in ("Call", "MethodCall") and x.get("callee") and (VISITOR_CRATE, x["callee"]) in ctx.facts.hir_by_path:
                    hb3 = ctx.facts.hir_by_path[(VISITOR_CRATE, x["callee"])]
                    if re.search(r"&(mut )?%sExpr$|&(mut )?%sObjectLit$" % (re.escape(AST), re.escape(AST)), hb3.get("output") or ""):
                        out_.add(x["callee"].split("::")[-1])
            return out_
        f_inj, f_scan = expr_forms(body) - {"Object"}, expr_forms(scan_body) - {"Object"}
        h_inj, h_scan = expr_helpers(body), expr_helpers(scan_body)
        same = (f_inj == f_scan or scan_body is body) and (h_inj == h_scan or scan_body is body)
        if scan_body is body:
            same = not h_inj    # one function: a helper that hands back another expression would separate what is scanned from what is written
        r.ob("the scan and the injection look at the same options object", same, C.mloc(inj, inj),
             "both read the second argument as written" if same else
             "the injection looks through %s, the existing-key scan through %s: a key the user wrote inside a wrapped literal is not seen and is written again after it" % (
                 sorted(f_inj | h_inj) or "nothing", sorted(f_scan | h_scan) or "nothing"))
        # the write is under `!scan`
        writes = [x for x in walk(body) if x.get("k") == "MethodCall" and x["method"] in ("push", "insert") and "PropOrSpread" in (strip_transparent(x["recv"]).get("ty") or "")]
        guarded = 0
        for w in writes:
            kt = idx.known_true(w)
            if scan_call is not None and any(isinstance(f, tuple) and strip_transparent(f[1]) is scan_call for f in kt):
                guarded += 1
            elif any(isinstance(f, tuple) and f[1] is scan for f in kt) or any((not isinstance(f, tuple)) and f.get("k") == "Unary" and f.get("op") == "!" and strip_transparent(f["e"]) is scan for f in kt):
                guarded += 1
        r.ob("injection into an options literal is guarded by the scan", bool(writes) and guarded == len(writes), C.mloc(inj, scan), "%d of %d write(s) under `!any(..)`" % (guarded, len(writes)))
        # insertion position: before the first spread
        pos_ok = False
        for x in walk(body):
            if x.get("k") == "MethodCall" and x["method"] == "position" and x["args"] and x["args"][0].get("k") == "Closure":
                if any(y.get("k") == "MethodCall" and y["method"] == "is_spread" for y in walk(x["args"][0])) or \
                   any(y.get("k") in ("PTupleStruct",) and y.get("variant") == "Spread" for y in walk(x["args"][0])):
                    # an insert whose index derives from it
                    for w in writes:
                        if w["method"] == "insert" and w["args"]:
                            lo = local_of(w["args"][0])
                            if lo:
                                b = idx.binding.get(lo[1])
                                if b and b.get("init") is not None and any(z is x for z in walk(b["init"])):
                                    pos_ok = True
        has_push_only = writes and all(w["method"] == "push" for w in writes)
        r.ob("injected key is placed before the first spread of the options literal", pos_ok, C.mloc(inj, scan),
             "insert(position(is_spread)) / push when there is no spread" if pos_ok else ("the key is only ever appended: `{...base}` overrides nothing but `{...base, <injected>}` overrides base" if has_push_only else "no insertion at the position of the first spread"))
    return r


def _vec_elems(node):
    """elements of a `vec![a, b]` expansion (array literal inside box_assume_init...) or plain array"""
    for n in walk(node):
        if n.get("k") == "Array":
            return n["items"]
    return []


def r20_4(ctx):
    r = Rule("R20.4", "name inference only for `const X = defineComponent(..)` with an identifier pattern, through the same injector",
             "a name injected elsewhere bypasses the user-wins scan")
    inj = C.role(ctx, "injector")
    for hb in C.visitor_methods(ctx):
        if hb["name"] != "visit_mut_var_declarator":
            continue
        r.saw(hb["path"])
        idx = HirIndex(hb)
        for n in walk(hb["body"]):
            if n.get("k") == "Call" and inj is not None and n.get("callee") == inj["path"]:
                key_arg = const_str(n["args"][1]) if len(n["args"]) > 1 else None
                # value is a string literal of the binding's symbol
                val = n["args"][2] if len(n["args"]) > 2 else None
                from_pat = False
                if val is not None:
                    for x in walk(val):
                        lo = local_of(x) if x.get("k") == "Path" else None
                        if lo:
                            b = idx.binding.get(lo[1])
                            p = (b or {}).get("path") or ()
                            if p and p[0][0] == "tfield" and p[0][1] == AST + "Pat" and p[0][2] == "Ident":
                                from_pat = True
                r.ob("name is injected under the key \"name\" from the Pat::Ident binding", key_arg == "name" and from_pat, C.mloc(hb, n),
                     "inject(call, \"name\", Str(<binding>.sym))" if (key_arg == "name" and from_pat) else "key %r, from identifier pattern: %s" % (key_arg, from_pat))
    if not r.obs:
        r.ob("name inference site", None, "-", "no injector call in visit_mut_var_declarator")
    return r


def rules(ctx):
    return [__import__('vjsx.rules.c10', fromlist=['x']).field_ratchet('augmentation must not depend on earlier calls'), r20_1, r20_2, r20_3, r20_4, r20_5]


EXPLANATION = (
    "R20.1 (MIR dominance): each call of the injector / props extractor / emits extractor in a VisitMut method is dominated by the "
    "true successor of the options.resolve_type test and of the identity predicate's result; these functions have no other callers. R20.2 "
    "(typed HIR): the predicate compares the callee symbol with the constant defineComponent and its syntax context with "
    "self.define_component, on plain identifiers only; define_component has one writer, reached only under `src.value == \"vue\"`, for an "
    "un-aliased named specifier whose local symbol equals the same constant. R20.3: early return on a spread options argument before any "
    "write; the wrapper literal is [injected, ...user]; for literal options the write is under `!any(..)` over a scan that examines "
    "KeyValue/Method/Getter/Setter/Shorthand with identifier and string keys, and the key goes to position(is_spread) when a spread exists. "
    "R20.4: the `name` option comes from a Pat::Ident binding through the same injector."
)
ASSUMPTIONS = ["the SWC resolver assigns one syntax context per binding (scope identity)", "evaluation of the options object by Vue is not modelled"]
TRUSTED = ["rustc nightly HIR/MIR", "swc resolver"]
LEVEL = "other"
LEVEL_TEXT = ("Every conjunct of the defineComponent identity test, both gates of every augmentation site, and the user-wins structure of the "
              "injector are decided on the resolved program; each is a necessary condition of C20 whose removal is reported by name.")
LEVEL_NOTE = "Trusted: rustc HIR/MIR, SWC resolver contexts. Not decided: evaluation of the options object."
TECHNIQUE = "MIR dominance of gate edges + typed-HIR pattern/guard extraction (known-true facts) + construction-template order"
