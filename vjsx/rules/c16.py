"""C16 — resolveType derives exactly the declared props and their requiredness."""
import re
from ..facts import AST, VISITOR_CRATE, walk, walk_with_parents, strip_transparent, field_path, const_str, local_of
from ..engine import Rule
from . import common as C
from .hirflow import HirIndex, conjuncts, _diverges
from .hirtext import expr_str, pat_str
from . import c10
from .state import access_index, root_path


def closures_by_param(hb, ty_suffix):
    out = []
    for n in walk(hb["body"]):
        pty = (n["params"][0].get("ty") or "") if n.get("k") == "Closure" and n.get("params") else ""
        if pty and (pty == ty_suffix or pty == "&" + ty_suffix or (not ty_suffix.startswith(("&", "swc_", "resolve_type")) and pty.split("::")[-1] == ty_suffix)):
            out.append(n)
    return out


def norm(node):
    return expr_str(node, names={})


def r16_1(ctx):
    r = Rule("R16.1", "sibling agreement: interface body = type literal; Partial = not Required; Pick = not Omit; Arrow setup = Fn setup; the two copies of the indexed-access member tables",
             "two encodings of the same type must yield the same props")
    tr = C.role_or_fail(ctx, r, "type_elements_resolver")
    ia = C.role_or_fail(ctx, r, "indexed_access_resolver")
    rt = C.role_or_fail(ctx, r, "runtime_type_inferrer")
    pe = C.role_or_fail(ctx, r, "props_extractor")
    ee = C.role_or_fail(ctx, r, "emits_extractor")
    if tr:
        r.saw(tr["path"])
        # (a) TsTypeElement -> RefinedTsTypeElement
        sites = [c for c in closures_by_param(tr, "swc_ecma_ast::TsTypeElement") if "RefinedTsTypeElement" in (c["body"].get("ty") or "") or any("RefinedTsTypeElement" in (x.get("adt") or "") for x in walk(c["body"]))]
        texts = {norm(c["body"]) for c in sites}
        if len(sites) >= 2:
            r.ob("member refinement: interface body and type literal agree", len(texts) == 1, C.mloc(tr, sites[0]), "%d site(s), %d distinct table(s)%s" % (len(sites), len(texts), "" if len(texts) == 1 else ": " + " <> ".join(sorted(t[:160] for t in texts))))
        else:
            r.ob("member refinement: interface body and type literal agree", True if len(sites) == 1 else None, C.mloc(tr, tr), "%d site (shared helper)" % len(sites))
        # (c) Partial / Required
        mods = [c for c in closures_by_param(tr, "resolve_type::RefinedTsTypeElement") if not (c["params"][0].get("ty") or "").startswith("&")]
        tables = []
        for c in mods:
            tab = {}
            for m in walk(c["body"]):
                if m.get("k") == "Match":
                    for a in m["arms"]:
                        variants = sorted({x.get("variant") for x in walk(a["pat"]) if x.get("k") in ("PTupleStruct", "PStruct") and (x.get("adt") or "").endswith("RefinedTsTypeElement")})
                        val = None
                        for x in walk(a["body"]):
                            if x.get("k") == "Assign":
                                lit = strip_transparent(x["r"])
                                if lit.get("k") == "Lit" and lit.get("lit") == "bool":
                                    val = lit["v"]
                        for v in variants:
                            tab[v] = val
            tables.append((c, tab))
        if len(tables) == 2:
            (c1, t1), (c2, t2) = tables
            ok = set(t1) == set(t2) and all((t1[k] is None and t2[k] is None) or (t1[k] is not None and t2[k] is not None and t1[k] != t2[k]) for k in t1)
            r.ob("Partial and Required touch the same members with opposite constants", ok, C.mloc(tr, c2), "%s vs %s" % (t1, t2))
        else:
            r.ob("Partial and Required touch the same members with opposite constants", None, C.mloc(tr, tr), "%d optional-rewriting closure(s) found" % len(tables))
        # (d) Pick / Omit
        filts = [c for c in closures_by_param(tr, "&resolve_type::RefinedTsTypeElement")]
        if len(filts) == 2:
            a, b = norm(filts[0]["body"]), norm(filts[1]["body"])

            def flip(t):
                t = t.replace("!v", "\x00v")
                t = t.replace("True", "\x01").replace("False", "True").replace("\x01", "False")
                return t
            # `E == true` / `E == false` (a shared filter instantiated with a constant) are E and !E
            def unconst(t):
                m_ = re.fullmatch(r"\((.*) == (True|False)\)", t, re.S)
                return (m_.group(1), m_.group(2) == "False") if m_ else (t, None)
            (ea, nega), (eb, negb) = unconst(a), unconst(b)
            if nega is not None and negb is not None:
                r.ob("Pick and Omit filters are exact negations (including default arms)", ea == eb and nega != negb, C.mloc(tr, filts[1]),
                     "one shared selection, kept when listed / when not listed" if ea == eb and nega != negb else "%s  ||  %s" % (a[:200], b[:200]))
                filts = []
        if len(filts) == 2:
            # `{ let x = E; x }` is E and `{ let x = E; !x }` is !E (a helper's argument bound by the inliner)
            def unlet(t):
                m_ = re.fullmatch(r"\{let (v\d+) = (.*); (!?)\1\}", t, re.S)
                return ("!" if m_.group(3) else "") + m_.group(2) if m_ and not re.search(r"\b%s\b" % m_.group(1), m_.group(2)) else t
            a, b = unlet(a), unlet(b)
            # `E` and `!E` wholesale (one shared selection, negated as a whole)
            def unbang(t):
                if t.startswith("!"):
                    u = t[1:].strip()
                    if u.startswith("(") and u.endswith(")"):
                        u = u[1:-1]
                    return u
                return None
            if (unbang(a) is not None and unbang(a) == b) or (unbang(b) is not None and unbang(b) == a):
                r.ob("Pick and Omit filters are exact negations (including default arms)", True, C.mloc(tr, filts[1]), "one shared selection E, the other filter is !E")
                filts = []
        if len(filts) == 2:
            # one must be the negation of the other
            na = a.replace("!", "")
            nb = b.replace("!", "")
            neg_ok = (na == nb.replace("True", "\x01").replace("False", "True").replace("\x01", "False")) and (a.count("!") != b.count("!"))
            r.ob("Pick and Omit filters are exact negations (including default arms)", neg_ok, C.mloc(tr, filts[1]), "%s  ||  %s" % (a[:200], b[:200]))
        else:
            r.ob("Pick and Omit filters are exact negations (including default arms)", None, C.mloc(tr, tr), "%d key filter closure(s)" % len(filts))
    if ia:
        r.saw(ia["path"])
        # (b) member-type tables per index kind, both for interface and type literal
        sites = closures_by_param(ia, "swc_ecma_ast::TsTypeElement")
        by_shape = {}
        for c in sites:
            t = norm(c["body"])
            kind = "by-key" if ".contains(" in t else "all-string-keys"
            by_shape.setdefault(kind, []).append((c, t))
        for kind, lst in sorted(by_shape.items()):
            texts = {t for c, t in lst}
            r.ob("indexed access (%s): interface and type-literal member tables agree" % kind, len(texts) == 1 and len(lst) >= 2 or len(lst) == 1, C.mloc(ia, lst[0][0]),
                 "%d site(s), %d distinct" % (len(lst), len(texts)) + ("" if len(texts) == 1 else ": " + " <> ".join(sorted(x[:150] for x in texts))))
        # the single/union tail: `if properties.len() == 1 { .. } else { union }`
        conds = []
        for n in walk(ia["body"]):
            if n.get("k") == "If" and "properties.len()" in expr_str(n["cond"]):
                conds.append((n, expr_str(n["cond"])))
        if len(conds) >= 2:
            cs = {c for n, c in conds}
            r.ob("indexed access: the single-member test is the same in both copies", len(cs) == 1, C.mloc(ia, conds[-1][0]), " / ".join(sorted(cs)))
    if rt:
        r.saw(rt["path"])
        sites = closures_by_param(rt, "swc_ecma_ast::TsTypeElement")
        texts = {norm(c["body"]) for c in sites}
        if sites:
            r.ob("runtime type of object types: type literal and interface agree", len(texts) == 1, C.mloc(rt, sites[0]), "%d site(s), %d distinct" % (len(sites), len(texts)))
    # (e) Arrow vs Fn setup arms
    for role, hb in (("props_extractor", pe), ("emits_extractor", ee)):
        if not hb:
            continue
        r.saw(hb["path"])
        arms = {}
        for n in walk(hb["body"]):
            if n.get("k") == "Match":
                for a in n["arms"]:
                    vs = {x.get("variant") for x in walk(a["pat"]) if x.get("k") in ("PTupleStruct",) and x.get("adt") == AST + "Expr"}
                    for v in vs & {"Arrow", "Fn"}:
                        t = norm(a["body"])
                        # the function form reaches the parameter pattern through `.function` and `.pat`
                        t = re.sub(r"\.function\b", "", t)
                        t = re.sub(r"\.map\(\|v\d+\| v\d+\.pat\)", "", t)
                        t = re.sub(r"\.pat\b", "", t)
                        arms[v] = (a, t)
        if "Arrow" in arms and "Fn" in arms:
            ta, tf = arms["Arrow"][1], arms["Fn"][1]
            # compare the set of Pat variants handled and the parameter index used
            pa = sorted(set(re.findall(r"\b(Ident|Array|Object|Assign|Rest)\(", ta)))
            pf = sorted(set(re.findall(r"\b(Ident|Array|Object|Assign|Rest)\(", tf)))
            ia_ = re.findall(r"params\.(first\(\)|get\(\d+\))", ta)
            if_ = re.findall(r"params\.(first\(\)|get\(\d+\))", tf)
            ok = pa == pf and ia_ == if_ and ta == tf
            r.ob("%s: arrow and function setups are treated alike" % role, ok, C.mloc(hb, arms["Fn"][0]),
                 "parameter %s, patterns %s" % (ia_, pa) if ok else "arrow: %s %s | fn: %s %s%s" % (ia_, pa, if_, pf, "" if (pa != pf or ia_ != if_) else " (bodies differ)"))
        else:
            r.ob("%s: arrow and function setups are treated alike" % role, None, C.mloc(hb, hb), "arms found: %s" % sorted(arms))
    return r


def r16_2(ctx):
    r = Rule("R16.2", "type registries are keyed by (name, scope): every get/get_mut/insert builds its key from sym and ctxt of the same identifier",
             "a name-only key confuses same-named declarations of different scopes")
    n = 0
    for b in ctx.facts.hir:
        if b["crate"] != VISITOR_CRATE or b.get("mac"):
            continue
        idx = None
        for node in walk(b["body"]):
            if node.get("k") == "MethodCall" and node["method"] in ("get", "get_mut", "insert", "contains_key", "entry", "remove") and node["args"]:
                fp = field_path(strip_transparent(node["recv"])) or ""
                if fp in ("self.interfaces", "self.type_aliases"):
                    idx = idx or HirIndex(b)
                    key = strip_transparent(node["args"][0])
                    lo = local_of(key)
                    if lo:
                        bd = idx.binding.get(lo[1])
                        if bd and bd.get("init") is not None:
                            key = strip_transparent(bd["init"])
                    ok = False
                    detail = "key is not a (sym, ctxt) tuple"
                    if key.get("k") == "Tup" and len(key["items"]) == 2:
                        a, c = strip_transparent(key["items"][0]), strip_transparent(key["items"][1])
                        if a.get("k") == "Field" and a["name"] == "ctxt" and c.get("k") == "Field" and c["name"] == "sym":
                            a, c = c, a       # (ctxt, sym): the same key, written the other way round
                        if a.get("k") == "Field" and a["name"] == "sym" and c.get("k") == "Field" and c["name"] == "ctxt":
                            ra, rc = expr_str(a["e"]), expr_str(c["e"])
                            ok = ra == rc
                            detail = "(%s.sym, %s.ctxt)" % (ra, rc)
                    n += 1
                    r.saw(b["path"])
                    c0 = sum(1 for o in r.obs if o["key"].startswith("%s: %s on %s" % (b["path"], node["method"], fp)))
                    r.ob("%s: %s on %s" % (b["path"], node["method"], fp) + ("" if not c0 else " #%d" % (c0 + 1)), ok, C.mloc(b, node), detail)
    # any other map field keyed by a bare name
    for f in ctx.facts.struct_fields("VueJsxTransformVisitor") or []:
        if re.search(r"(HashMap|BTreeMap|IndexMap)<", f["ty"]) and "swc_atoms::Atom" in f["ty"].split(",")[0] and "SyntaxContext" not in f["ty"].split(">")[0]:
            if "(swc_atoms::Atom, swc_common::SyntaxContext)" not in f["ty"] and "(swc_common::SyntaxContext, swc_atoms::Atom)" not in f["ty"]:
                r.ob("visitor map field %s is keyed by name and scope" % f["name"], False, "-", "%s is keyed by a bare name" % f["ty"][:120])
    r.ob("registry accesses found", n >= 1, "-", "%d access(es)" % n)
    return r


ACTION_METHODS = {"extend", "push", "extend_from_slice", "span_err", "insert"}


def _uncovered(node, family, depth=0):
    """paths through `node` that neither contribute, recurse, nor report: list of (node, description)"""
    k = node.get("k")
    if k == "Block":
        items = list(node.get("stmts", [])) + ([node["expr"]] if node.get("expr") is not None else [])
        # an unconditional action anywhere at this level covers every path through the block
        for it in items:
            if _is_action(it, family):
                return []
        # otherwise the last branching item decides
        for it in reversed(items):
            if it.get("k") in ("If", "Match", "Block"):
                return _uncovered(it, family, depth + 1)
            if it.get("k") == "Let" and it.get("else") is not None:
                continue
        return [(node, "block without contribution")]
    if k == "If":
        out = _uncovered(node["then"], family, depth + 1)
        el = node.get("else")
        if el is not None and not (el.get("k") == "Block" and not el.get("stmts") and el.get("expr") is None):
            out += _uncovered(el, family, depth + 1)
        else:       # (an empty else block is the implicit else written out: a guard clause `let .. else { return }` normalises to it)
            out.append((node, "implicit else of `if %s`" % expr_str(node["cond"])[:90]))
        return out
    if k == "Match":
        out = []
        for a in node["arms"]:
            for n2, d in _uncovered(a["body"], family, depth + 1):
                out.append((n2, "%s => %s" % (pat_str(a["pat"])[:50], d)))
        return out
    if _is_action(node, family):
        return []
    return [(node, "no contribution")]


def _is_action(node, family):
    """an expression statement that unconditionally contributes members, recurses, or reports"""
    n = node
    while n.get("k") == "Block" and not n.get("stmts") and n.get("expr") is not None:
        n = n["expr"]
    if n.get("k") == "MethodCall":
        if n["method"] in ("extend", "push", "extend_from_slice") :
            return True
        if n.get("callee") in family:
            return True
        if n["method"] == "with" and any(x.get("k") == "MethodCall" and x["method"] == "span_err" for x in walk(n)):
            return True
        if n["method"] in ("for_each",) and any(x.get("k") == "MethodCall" and x.get("callee") in family for x in walk(n)):
            return True
        # a chain like `extends.iter().filter_map(..).for_each(|i| self.resolve(..))`
        if any(x.get("k") == "MethodCall" and x.get("callee") in family for x in walk(n)) and n["method"] in ("for_each", "extend"):
            return True
    if n.get("k") == "Call" and n.get("callee") in family:
        return True
    if _is_for_loop(n):
        # `for x in xs { self.resolve(x) }` is the loop spelling of `xs.for_each(|x| self.resolve(x))`
        if any(x.get("k") in ("MethodCall", "Call") and (x.get("callee") in family or x.get("method") in ("extend", "push", "extend_from_slice")) for x in walk(n)):
            return True
    if n.get("k") == "Let" and n.get("else") is not None:
        return False
    return False


def _is_for_loop(n):
    """the HIR desugaring of `for pat in iter { .. }`: match IntoIterator::into_iter(iter) { it => loop { match next(&mut it) { .. } } }"""
    if n.get("k") != "Match" or len(n.get("arms", [])) != 1:
        return False
    sc = strip_transparent(n["scrut"])
    body = n["arms"][0]["body"]
    while body.get("k") == "Block" and not body.get("stmts") and body.get("expr") is not None:
        body = body["expr"]
    return sc.get("k") == "Call" and (sc.get("callee") or "").endswith("IntoIterator::into_iter") and body.get("k") == "Loop"


R163_REVIEWED = {"Partial", "Required", "Pick", "Omit"}


def r16_3(ctx):
    r = Rule("R16.3", "no silent drop: every path through the member resolver contributes members, recurses, or reports an error",
             "a type that is neither resolved nor reported loses its props silently")
    tr = C.role_or_fail(ctx, r, "type_elements_resolver")
    if not tr:
        return r
    r.saw(tr["path"])
    family = set()
    for role in ("type_elements_resolver", "indexed_access_resolver", "string_union_resolver", "runtime_type_inferrer"):
        b = C.role(ctx, role)
        if b:
            family.add(b["path"])
    body = tr["body"]
    # skip the entry gate (let-else) when present
    m = None
    for n in walk(body):
        if n.get("k") == "Match" and (strip_transparent(n["scrut"]).get("ty") or "").endswith("TsType"):
            m = n
            break
    if m is None:
        r.ob("resolver is a match over TsType", None, C.mloc(tr, tr), "shape not recognised")
        return r
    holes = _uncovered(m, family)
    seen = {}
    n_arms = len(m["arms"])
    for node, desc in holes:
        # reviewed: utility types written without type arguments (TypeScript rejects them)
        ok = any(("'%s'" % u) in desc for u in R163_REVIEWED) and "implicit else" in desc and ("type_params" in desc or "params" in desc)
        key = "path: " + re.sub(r"\s+", " ", desc)[:150]
        c = seen.get(key, 0)
        seen[key] = c + 1
        r.ob(key if not c else "%s #%d" % (key, c + 1), ok, C.mloc(tr, node),
             "reviewed: a built-in utility type without type arguments is rejected by TypeScript" if ok else "this path neither adds members, nor recurses, nor reports a diagnostic")
    r.ob("all other paths of the member resolver contribute, recurse or report", True, C.mloc(tr, m), "%d top-level arm(s); %d path(s) without action (listed above)" % (n_arms, len(holes)))
    return r


def r16_4(ctx):
    r = Rule("R16.4", "the type registries are complete before they are first consulted (declarations after the call are seen)",
             "a declaration that follows the defineComponent call is reported as unresolvable")
    idx = access_index(ctx)
    methods = c10._method_bodies(ctx)
    from ..cfg import calls, callee_name, place_of
    from .state import _ref_root_is_owned
    from .influence import flow_of
    for hb, mb in methods:
        if not c10._is_root_method(hb):
            continue
        r.saw(mb["path"])
        g = C.cfg_of(ctx, mb)
        fl = flow_of(ctx, mb)
        trav = c10._traversal_blocks(mb, ctx.facts)
        pre = []
        for i, t in calls(mb):
            tys = t.get("arg_tys", [])
            if callee_name(t).endswith("::visit_with") and len(tys) == 2 and tys[1].startswith("&mut ") and "::" not in tys[1][5:].split("<")[0]:
                pre.append((i, t))
        if not trav:
            continue
        ok_order = len(pre) == 1 and all(g.dominates(pre[0][0], tb) and tb in g.reach_after(pre[0][0]) for tb in trav)
        r.ob("%s runs a read-only pre-pass over the whole module before it traverses" % hb["name"], ok_order, C.mloc(mb, pre[0][1]) if pre else C.mloc(mb, mb),
             "visit_with(&mut %s) in bb%d dominates the traversal in bb%s" % (pre[0][1]["arg_tys"][1][5:], pre[0][0], trav) if ok_order else
             "%d pre-pass call(s) dominating the traversal: the registries are not complete when the first defineComponent call is reached" % len(pre))
        if not ok_order:
            continue
        # the collector local
        cl = None
        p = place_of(pre[0][1]["args"][1])
        seen = set()
        while p is not None and p["l"] not in seen:
            seen.add(p["l"])
            d = fl.defs.get(p["l"], [])
            if len(d) != 1 or d[0][0] != "stmt":
                break
            rv = d[0][2]["rv"]
            if rv.get("rk") == "use":
                p = place_of(rv["op"])
            elif rv.get("rk") == "ref":
                q = rv["place"]
                if (q.get("p") or []) in ([], None):
                    cl = q["l"]
                    break
                p = {"l": q["l"]} if q.get("p") == ["*"] else None
            else:
                break
        for name in ("interfaces", "type_aliases", "define_component"):
            moved = []
            for blk in mb["blocks"]:
                if blk.get("cleanup"):
                    continue
                for st in blk["stmts"]:
                    if st["k"] == "assign" and st["lhs"]["l"] == 1 and (st["lhs"].get("p") or [])[-1:] == ["." + name] and st["rv"].get("rk") == "use":
                        src = place_of(st["rv"]["op"])
                        hops = 0
                        while src is not None and not src.get("p") and hops < 6:
                            dd = fl.defs.get(src["l"], [])
                            if len(dd) != 1 or dd[0][0] != "stmt" or dd[0][2]["rv"].get("rk") != "use":
                                break
                            src = place_of(dd[0][2]["rv"]["op"])
                            hops += 1
                        if src is not None and src["l"] == cl and (src.get("p") or [])[-1:] == ["." + name]:
                            moved.append(blk["i"])
            okm = cl is not None and any(g.dominates(pre[0][0], b) and all(g.dominates(b, tb) for tb in trav) for b in moved)
            r.ob("%s: the pre-pass's `%s` becomes the visitor's before the traversal" % (hb["name"], name), okm, C.mloc(mb, pre[0][1]),
                 "self.%s = collector.%s in bb%s, between the pre-pass and the traversal" % (name, name, moved) if okm else
                 "no move of the collector's `%s` into self.%s between the pre-pass and the traversal" % (name, name))
    for name in ("interfaces", "type_aliases", "define_component"):
        acc = [a for a in idx.get(name, []) if not root_path(a["body"]).endswith("::new")]
        writers = sorted({root_path(a["body"]) for a in acc if a["kind"] == "store" or (a["kind"] == "call" and a["mut"] and re.search(r"::(insert|get_mut|entry|extend_from_slice)$", a.get("callee", "")))})
        readers = sorted({root_path(a["body"]) for a in acc if root_path(a["body"]) not in writers})
        in_traversal = [w for w in writers if "VisitMut>::visit_mut_" in w and not any(c10._is_root_method(hb) and mb["path"] == w for hb, mb in methods)]
        r.ob("%s is filled by a pre-pass before the traversal that reads it" % name, not in_traversal, "-",
             "written by a pre-pass" if not in_traversal else "filled by %s during the same traversal in which %s read it: declarations that come after a defineComponent call are not yet registered" % (
                 ", ".join(w.split("::")[-1] for w in in_traversal), ", ".join(x.split("::")[-1] for x in readers[:4])))
    return r


def r16_5(ctx):
    r = Rule("R16.5", "requiredness table: property / method -> !optional, getter -> true; merging a duplicate only ever lowers `required`",
             "a wrong requiredness makes Vue warn about / accept missing props")
    pb = C.role_or_fail(ctx, r, "props_builder")
    if not pb:
        return r
    r.saw(pb["path"])
    want = {"Property": "!optional", "GetterSignature": "True", "MethodSignature": "!optional"}
    for n in walk(pb["body"]):
        if n.get("k") == "Match" and any("RefinedTsTypeElement" in (x.get("adt") or "") for a in n["arms"] for x in walk(a["pat"])):
            for a in n["arms"]:
                vs = [x.get("variant") for x in walk(a["pat"]) if x.get("k") in ("PTupleStruct", "PStruct") and (x.get("adt") or "").endswith("RefinedTsTypeElement")]
                for v in vs:
                    if v not in want:
                        continue
                    reqs = []
                    lowers = []
                    for x in walk(a["body"]):
                        if x.get("k") == "Struct" and (x.get("adt") or "").endswith("PropIr"):
                            reqs.append(expr_str({f["name"]: f["e"] for f in x["fields"]}["required"]).replace("!False", "True").replace("!True", "False"))
                        if x.get("k") == "Assign" and expr_str(x["l"]).endswith(".required"):
                            lowers.append(expr_str(x["r"]))
                    r.ob("%s: required = %s for a new prop" % (v, want[v]), reqs == [want[v]], C.mloc(pb, a), "PropIr.required = %s" % reqs)
                    r.ob("%s: merging a duplicate only lowers `required`" % v, all(l == "False" for l in lowers), C.mloc(pb, a), "assignments: %s" % lowers)
            break
    return r


def r16_6(ctx):
    r = Rule("R16.6", "every visited interface / type alias declaration is registered (on every path under resolve_type)",
             "a declaration that is skipped — e.g. an empty body that still carries `extends` — loses props silently")
    from .c20 import _true_succ
    from .influence import flow_of
    from .mirflow import self_field_of
    from .state import first_field
    from ..cfg import calls, callee_name
    hooks = [(hb, C.mir_of(ctx, hb)) for hb in ctx.facts.hir if hb["crate"] == VISITOR_CRATE and not hb.get("mac")
             and re.search(r"(^|::)Visit(Mut)?$", hb.get("impl_trait") or "")]
    for hb, mb in hooks:
        node_ty = hb["inputs"][1] if len(hb["inputs"]) > 1 else ""
        if mb is None or not (node_ty.endswith("TsInterfaceDecl") or node_ty.endswith("TsTypeAliasDecl")):
            continue
        r.saw(mb["path"])
        g = C.cfg_of(ctx, mb)
        fl = flow_of(ctx, mb)
        starts = []
        for blk in mb["blocks"]:
            ts = _true_succ(mb, fl, blk)
            if ts and ts[0] == "field" and any(f.strip(".") in ("options.resolve_type", "resolve_type") for f in ts[1]) and ts[3] is not None:
                starts.append(ts[3])
        reg = set()
        for i, t in calls(mb):
            name = callee_name(t)
            if re.search(r"HashMap::<K, V, S, A>::(insert|entry)$|Vec::<T, A>::(extend_from_slice|extend|append|push)$", name):
                fields = {first_field(f) for f in self_field_of(fl.op_sources(t["args"][0]))}
                if fields & {"interfaces", "type_aliases"}:
                    reg.add(i)
        key = "%s registers the declaration on every path" % hb["name"]
        if not starts or not reg:
            r.ob(key, False, C.mloc(mb, mb), "no resolve_type test (%d) or no registration call (%d)" % (len(starts), len(reg)))
            continue
        # the option test itself lies on every path through the hook: an early return before it skips the registration altogether
        tests = {blk["i"] for blk in mb["blocks"] if (lambda ts_: ts_ and ts_[0] == "field" and any(f.strip(".") in ("options.resolve_type", "resolve_type") for f in ts_[1]))(_true_succ(mb, fl, blk))}
        if tests and not g.must_pass(tests):
            r.ob(key, False, C.mloc(mb, mb), "a path returns (bb%s) before the resolve_type test: declarations taking that path are never registered" % g.escaping_exit(tests))
            continue
        ok = all(g.must_pass(reg, start=s) for s in starts)
        e = None
        if not ok:
            for s in starts:
                e = g.escaping_exit(reg, start=s)
        r.ob(key, ok, C.mloc(mb, mb), "insert / merge in bb%s on every path after the resolve_type test" % sorted(reg) if ok else "a path reaches return (bb%s) with resolveType on without registering the declaration" % e)
    return r


def r16_7(ctx):
    r = Rule("R16.7", "a member key written as an identifier and the same key written as a string literal are treated alike wherever members are selected by name",
             "`Omit<T, 'aria-label'>` keeps exactly the quoted keys it should drop when only the identifier arm carries the negation")
    n = 0
    for b in ctx.facts.hir:
        if b["crate"] != VISITOR_CRATE or b.get("mac") or "resolve_type" not in b["path"]:
            continue
        for m in walk(b["body"]):
            if m.get("k") != "Match" or (m.get("ty") or "") != "bool":
                continue
            ident_arm = str_arm = None
            for a in m["arms"]:
                ps = pat_str(a["pat"])
                if ps.startswith("Ident(") and a.get("guard") is None:
                    ident_arm = a
                elif ps.startswith("Lit(Str(") and a.get("guard") is None:
                    str_arm = a
            if ident_arm is None or str_arm is None:
                continue
            n += 1
            r.saw(b["path"])
            ti = re.sub(r"\bv\d+\.(sym|value)\b", "KEY", expr_str(ident_arm["body"], names={}))
            ts = re.sub(r"\bv\d+\.(sym|value)\b", "KEY", expr_str(str_arm["body"], names={}))
            key = "%s: identifier key and quoted key select alike" % b["path"]
            c = sum(1 for o in r.obs if o["key"].startswith(key))
            r.ob(key if not c else "%s #%d" % (key, c + 1), ti == ts, C.mloc(b, m),
                 "both arms: %s" % ti[:80] if ti == ts else "identifier arm `%s` but string arm `%s`" % (ti[:80], ts[:80]))
    r.ob("name-selection matches examined", n > 0, "-", "%d boolean match(es) with an identifier-key and a quoted-key arm" % n)
    return r


def r16_8(ctx):
    r = Rule("R16.8", "the member accumulator is append-only: a utility type transforms the members of its argument (collected in a vector of their own), never what was collected before",
             "`A & Partial<B>` makes A's members optional when Partial post-processes the shared accumulator")
    from ..cfg import calls, callee_name
    from .influence import flow_of
    tr = C.role_or_fail(ctx, r, "type_elements_resolver")
    if not tr:
        return r
    fam = {C.role(ctx, x)["path"] for x in ("type_elements_resolver", "indexed_access_resolver") if C.role(ctx, x)}
    APPEND = re.compile(r"(Vec::<T, A>::(push|extend_from_slice|append|reserve)|Extend<T>>::extend|Extend<&'a T>>::extend)$")
    n = 0
    for mb in C.family(ctx, tr):
        fl = flow_of(ctx, mb)
        r.saw(mb["path"])
        for i, t in calls(mb):
            for ai, (a, ty) in enumerate(zip(t["args"], t.get("arg_tys", []))):
                if not ty.startswith("&mut alloc::vec::Vec<resolve_type::RefinedTsTypeElement>"):
                    continue
                srcs = fl.op_sources(a)
                is_acc = any(x[0] == "param" and x[1] == 3 for x in srcs) or any(x[0] == "upvar" and x[1].lstrip("*") in ("props",) for x in srcs)
                if not is_acc:
                    continue
                n += 1
                name = callee_name(t)
                ok = bool(APPEND.search(name)) or name in fam
                key = "%s: %s on the accumulator" % (mb["path"], name.split("::")[-1])
                c = sum(1 for o in r.obs if o["key"].startswith(key))
                r.ob(key if not c else "%s #%d" % (key, c + 1), ok, C.mloc(mb, t),
                     "append / recursive collection" if ok else "%s can change members that were collected before this type was reached" % name.split("::")[-1])
    r.ob("uses of the accumulator examined", n > 0, "-", "%d call(s) taking the accumulator by &mut" % n)
    return r


def r16_9(ctx):
    r = Rule("R16.9", "the declaration pre-pass walks the whole module: none of its hooks prunes the traversal (each visits its node's children on every path)",
             "an overridden hook that does not descend hides the declarations nested below it (in function bodies, arrow bodies, object methods)")
    from ..cfg import calls, callee_name
    n = 0
    for hb in ctx.facts.hir:
        if hb["crate"] != VISITOR_CRATE or hb.get("mac") or not re.search(r"(^|::)Visit$", hb.get("impl_trait") or ""):
            continue
        mb = C.mir_of(ctx, hb)
        if mb is None:
            continue
        n += 1
        r.saw(mb["path"])
        node_ty = hb["inputs"][1] if len(hb["inputs"]) > 1 else ""
        g = C.cfg_of(ctx, mb)
        desc = {i for i, t in calls(mb) if callee_name(t).endswith(("visit_children_with", "::visit_with"))}
        leaf_kind = node_ty.endswith(("ImportDecl", "ExportAll", "NamedExport"))    # nothing that could contain a declaration below these
        ok = leaf_kind or (bool(desc) and g.must_pass(desc))
        r.ob("%s descends into its node" % hb["name"], ok, C.mloc(hb, hb),
             ("nothing below %s can hold a declaration" % node_ty.split("::")[-1]) if leaf_kind else
             ("visit_children_with on every path" if ok else "a path through this hook returns without visiting the children of %s: declarations nested there are never registered" % node_ty.split("::")[-1]))
    r.ob("hooks of the pre-pass examined", True, "-", "%d Visit hook(s)" % n)
    return r



# ---- R16.10: no silent way out of the member resolver ---------------------------------------------------------------------------
REPORT_CALL = re.compile(r"(Handler::(span_err|struct_span_err|err|struct_err|span_err_with_code)|Diagnostic\w*::emit)$")
GROW_METHODS = ("push", "extend", "extend_from_slice", "append", "insert")

def _productive_leaf(ctx, n):
    if n.get("k") not in ("Call", "MethodCall"):
        return False
    cal = n.get("callee") or ""
    if REPORT_CALL.search(cal) or REPORT_CALL.search(n.get("callee_full") or ""):
        return True
    if (VISITOR_CRATE, cal) in ctx.facts.hir_by_path:
        return True
    if n.get("k") == "MethodCall" and n.get("method") in GROW_METHODS and "RefinedTsTypeElement" in (strip_transparent(n["recv"]).get("ty") or ""):
        return True
    return False

def _has_prod(ctx, n):
    return any(_productive_leaf(ctx, x) for x in walk(n))


def _silent_paths(ctx, e):
    """list of tags of paths through e that complete without a productive action ([] = every path is productive)"""
    if e is None:
        return ["<nothing>"]
    if not _has_prod(ctx, e):
        return ["<no action>"] if e.get("k") != "Ret" else ["return"]
    k = e.get("k")
    if k == "Block":
        parts = list(e.get("stmts", [])) + ([e["expr"]] if e.get("expr") is not None else [])
        tags = []
        for p in parts:
            if p.get("k") == "Let":
                init = p.get("init")
                if p.get("else") is not None and _silent_paths(ctx, p["else"]) and not (init is not None and _has_prod(ctx, init)):
                    # (when the initialiser is itself a call of a local function, leaving through the else is that function's doing)
                    tags.append(("exit", "let-else `%s = %s`" % (pat_str(p["pat"]), expr_str(init)[:120])))
                continue
            if not _has_prod(ctx, p):
                if p.get("k") == "Ret" or (p.get("k") == "If" and any(x.get("k") == "Ret" for x in walk(p, enter_closures=False))):
                    tags.append(("exit", "early `%s`" % expr_str(p)[:100]))
                continue
            s = _silent_paths(ctx, p)
            if s == []:
                return [t for kind, t in tags if kind == "exit"]
            tags.extend(("through", t) for t in s)
        return [t for kind, t in tags]
    if k == "If":
        c = e["cond"]
        out = []
        st = _silent_paths(ctx, e["then"])
        out += ["%s" % t for t in st] if _has_prod(ctx, e["then"]) else ["then of `if %s`: no action" % expr_str(c)[:120]]
        if e.get("else") is not None:
            se = _silent_paths(ctx, e["else"])
            out += se if _has_prod(ctx, e["else"]) else ["else of `if %s`: no action" % expr_str(c)[:120]]
        else:
            out.append("no else for `if %s`" % expr_str(c)[:120])
        return out
    if k == "Loop" or (k == "Match" and "ForLoop" in (e.get("src") or "")):
        return []       # a loop whose body acts: an empty iteration has nothing to resolve
    if k == "Match":
        out = []
        for a in e["arms"]:
            if _has_prod(ctx, a["body"]):
                out += _silent_paths(ctx, a["body"])
            else:
                out.append("arm `%s`: no action" % pat_str(a["pat"])[:120])
        return out
    if k in ("Call", "MethodCall"):
        return []
    if k == "Loop" or (k == "Match" and "ForLoop" in (e.get("src") or "")):
        return []       # a loop whose body acts: an empty iteration has nothing to resolve
    ch = [v for v in e.values() if isinstance(v, dict)]
    out = []
    for c in ch:
        if _has_prod(ctx, c):
            s = _silent_paths(ctx, c)
            if s == []:
                return []
            out += s
    return out


ACCEPTED_SILENT = [
    (re.compile(r"^(no else for|else of) `if let Some\(.*\) = .*type_params"), "a utility type written without its type argument(s): TypeScript itself rejects `Partial` / `Pick<T>`"),
]


def r16_10(ctx):
    r = Rule("R16.10", "the member resolver has no silent way out: every path through it resolves further, appends members, or reports an error",
             "a type the resolver leaves through an early `return` contributes no props and no diagnostic: the component silently loses them")
    tr = C.role_or_fail(ctx, r, "type_elements_resolver")
    if not tr:
        return r
    r.saw(tr["path"])
    tags = _silent_paths(ctx, tr["body"])
    seen = {}
    for t in tags:
        c = seen.get(t, 0)
        seen[t] = c + 1
        key = "silent exit: %s" % t if c == 0 else "silent exit: %s #%d" % (t, c + 1)
        why = next((w for rx, w in ACCEPTED_SILENT if rx.search(t)), None)
        r.ob(key, why is not None, C.mloc(tr, tr), ("accepted: " + why) if why else "this path adds no member, resolves nothing further and reports nothing")
    r.ob("paths through the member resolver examined", True, "-", "%d path(s) without an action, all of an accepted kind" % len(tags) if all(any(rx.search(t) for rx, _ in ACCEPTED_SILENT) for t in tags) else "%d path(s) without an action" % len(tags))
    return r


def r16_11(ctx):
    r = Rule("R16.11", "inheritance is followed: every parent of an interface is resolved, and a re-opened interface keeps the parents of every declaration",
             "a parent that is skipped (filtered out, or overwritten when the interface is declared again) silently takes its members — props or event names — with it")
    tr = C.role_or_fail(ctx, r, "type_elements_resolver")
    if tr:
        r.saw(tr["path"])
        n = 0
        for x in walk(C.family_body(ctx, tr)):
            if x.get("k") != "MethodCall":
                continue
            chain, cur = [], x
            while cur.get("k") == "MethodCall":
                chain.append(cur["method"])
                cur = strip_transparent(cur["recv"])
            root = expr_str(cur)
            if chain and chain[-1] in ("iter", "into_iter") and re.search(r"(^|\.)extends$", root) and chain[0] in ("for_each", "collect", "extend", "fold"):
                n += 1
                bad = [m_ for m_ in chain if m_ in ("filter", "take", "skip", "take_while", "skip_while", "step_by", "nth", "find", "last", "rev")]
                r.ob("every parent named in `extends` is resolved" + ("" if n == 1 else " #%d" % n), not bad, C.mloc(tr, x),
                     "extends.%s" % ".".join(reversed(chain)) if not bad else "the walk over `extends` drops parents (`.%s(..)`): their members are lost without a diagnostic" % bad[0])
        if n == 0:
            r.ob("every parent named in `extends` is resolved", None, C.mloc(tr, tr), "no iterator chain over `extends` found (loop form: not decided)")
    for hb in ctx.facts.hir:
        if hb["crate"] == VISITOR_CRATE and hb.get("name") == "visit_ts_interface_decl" and not hb.get("mac"):
            r.saw(hb["path"])
            bad = None
            for x in walk(hb["body"]):
                if x.get("k") == "Assign" and (field_path(strip_transparent(x["l"])) or expr_str(x["l"])).endswith(".extends"):
                    bad = (x, "assigned")
                if x.get("k") == "MethodCall" and x.get("method") in ("clone_from", "clear", "truncate") and expr_str(strip_transparent(x["recv"])).endswith(".extends"):
                    bad = (x, x["method"])
                if x.get("k") == "Call" and (x.get("callee") or "").endswith(("mem::replace", "mem::swap", "mem::take")) and any(expr_str(a).endswith(".extends") for a in x.get("args", [])):
                    bad = (x, x["callee"].split("::")[-1])
            r.ob("a re-opened interface keeps the parents it already has", bad is None, C.mloc(hb, bad[0] if bad else hb),
                 "`extends` of the merged declaration is only ever extended" if bad is None else "`extends` of the declaration already recorded is %s: the parents of the earlier declaration are forgotten" % bad[1])
    return r


# ---- R16.12: every constituent of a union / intersection is consulted ---------------------------------------------------------------
FIRST_WINS = {"find_map", "find", "position", "first", "last", "next", "nth", "next_back", "rposition", "take", "skip", "step_by", "pop", "split_first", "split_last"}
CONSTITUENT_ADTS = ("swc_ecma_ast::TsUnionType", "swc_ecma_ast::TsIntersectionType")


def r16_12(ctx):
    from ..facts import walk
    r = Rule("R16.12", "the constituents of a union / intersection type are all consulted: no first-wins or truncating combinator (find_map, find, first, next, nth, take, ...) is applied to a `types` list",
             "a member, event name or runtime type contributed by the second or a later constituent is silently dropped")
    n_lists = 0
    for fn in ctx.facts.user_hir():
        if "resolve_type" not in fn["path"]:
            continue
        ids = set()
        for n in walk(fn["body"]):
            if n.get("k") == "PStruct" and n.get("adt") in CONSTITUENT_ADTS:
                for f in n.get("fields", []):
                    if f.get("name") == "types":
                        for b in walk(f["p"]):
                            if b.get("k") == "PBind":
                                ids.add(b.get("id"))
                                n_lists += 1
            elif n.get("k") == "Field" and n.get("name") == "types" and str(n.get("e", {}).get("tya", "")).replace("&", "").replace("mut ", "").strip() in CONSTITUENT_ADTS:
                n_lists += 1

        def root(x):
            while isinstance(x, dict):
                if x.get("k") == "MethodCall":
                    x = x.get("recv")
                elif x.get("k") in ("AddrOf", "Deref", "Unary", "Paren", "DropTemps", "Cast", "Index"):
                    x = x.get("e") or x.get("base")
                else:
                    break
            return x
        for n in walk(fn["body"]):
            if n.get("k") == "MethodCall" and n.get("method") in FIRST_WINS:
                rt = root(n.get("recv"))
                if not isinstance(rt, dict):
                    continue
                hit = (rt.get("k") == "Path" and (rt.get("res") or {}).get("r") == "local" and rt["res"].get("id") in ids) or \
                      (rt.get("k") == "Field" and rt.get("name") == "types" and str(rt.get("e", {}).get("tya", "")).replace("&", "").replace("mut ", "").strip() in CONSTITUENT_ADTS)
                if hit:
                    r.ob("%s: `.%s(..)` on the constituent list of a union / intersection" % (fn["path"], n["method"]), False, C.mloc(fn, n),
                         "`%s` stops at / keeps only some constituents; the others never contribute" % n["method"])
    r.ob("constituent lists of union / intersection types found in the resolver", n_lists >= 4, "visitor/src/resolve_type.rs", "%d binding(s) / field read(s) of `types`" % n_lists)
    return r


def rules(ctx):
    from . import c17
    extra = []
    if ctx.tier == "thorough":
        from . import controls
        extra = [controls.control_rule([("R16.12", r16_12, ["first_constituent"])])]
    return extra + [__import__('vjsx.rules.c10', fromlist=['x']).field_ratchet('resolved props must not depend on what was resolved before'), r16_1, r16_2, r16_3, r16_4, r16_5, r16_6, r16_7, r16_8, r16_9, r16_10, r16_11, r16_12, c17.r17_4]


EXPLANATION = (
    "R16.1 (A7): closures implementing the same interface are rendered span-free with alpha-renamed locals and or-pattern alternatives as "
    "sets, and must be equal (interface body vs type literal member refinement; the two copies of each indexed-access member table and their "
    "single-member test; object-type runtime inference) or equal under the declared involution (Partial/Required constants; Pick/Omit "
    "negation; Arrow/Fn parameter access). R16.2: every access to interfaces/type_aliases uses a (sym, ctxt) tuple of one identifier; no "
    "visitor map is keyed by a bare name. R16.3: path enumeration of the member resolver — each path contributes, recurses or reaches "
    "span_err (reviewed: utility types without type arguments). R16.4: the registries are filled by a read-only pre-pass that dominates the traversal and "
    "are handed to the visitor before it. R16.5: requiredness table of the props builder. R16.6: every declaration hook registers on every "
    "path. R16.7: identifier keys and quoted keys select alike. R16.8: the member accumulator is append-only."
    ' R16.12: no first-wins / truncating combinator (find_map, find, first, next, nth, take, ...) is applied to the `types` list of a union or intersection; every constituent contributes (positive control in the thorough tier).'
    ' R16.10: the member resolver has no silent way out — every path through it calls a local resolver, appends members or reports an error; the only accepted paths without an action are utility types written without their type arguments.'
)
ASSUMPTIONS = ["set equality of props for every type encoding is not computed; only agreement of sibling implementations and the tables are decided",
               "TypeScript rejects built-in utility types without type arguments"]
TRUSTED = ["rustc nightly typed HIR", "SWC resolver contexts"]
LEVEL = "other"
LEVEL_TEXT = ("Sibling-agreement and table checks over the typed HIR of the resolver family; necessary conditions of 'exactly the declared "
              "props however the type is written'. The former defect (declarations after the call not seen) was repaired (93bc839); R16.4 guards the pre-pass.")
LEVEL_NOTE = "Trusted: rustc HIR, SWC resolver. Not decided: member-set equality for every encoding."
TECHNIQUE = "sibling agreement on normalised typed HIR (A7) + key-construction provenance + path enumeration of the resolver"
