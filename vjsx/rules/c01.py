"""C01 — every JSX element renders the vnode type and props its source denotes (lowering shape)."""
import re
from ..facts import AST, VISITOR_CRATE, walk, strip_transparent, field_path, const_str, local_of
from ..engine import Rule
from . import common as C
from .hirflow import HirIndex, conjuncts, disjuncts
from .hirtext import expr_str, pat_str
from .c13 import _fold_closure, _top_arms
from . import c07, c11, c14


def _if_chain(node):
    """[(cond_text or None, branch_node)] of an if / else-if chain"""
    out = []
    n = node
    while n is not None and n.get("k") == "If":
        out.append((n["cond"], n["then"]))
        n = n.get("else")
        while n is not None and n.get("k") == "Block" and not n.get("stmts") and n.get("expr") is not None and n["expr"].get("k") == "If":
            n = n["expr"]
    if n is not None:
        out.append((None, n))
    return out


def _classify_tag_cond(txt):
    if "STANDARD_HTML_TAGS" in txt or "SVG_TAGS" in txt:
        return "html"
    if "'Fragment'" in txt or "is_fragment_name" in txt:
        return "fragment"
    if "is_match" in txt:
        return "custom"
    if "has_mark" in txt and "unresolved_mark" in txt:
        return "unresolved"
    return "?"


HTML_PRED = "(name.as_bytes()[0].is_ascii_lowercase() && (STANDARD_HTML_TAGS.contains(name) || SVG_TAGS.contains(name)))"


def r01_1(ctx):
    r = Rule("R01.1", "tag classes: the tag function and the component predicate classify tags by the same predicates, in the documented precedence (HTML/SVG, Fragment, custom-element pattern, unresolved, bound); member tags are components whatever their last segment",
             "two classifiers that disagree give an element the wrong type or the wrong child form")
    tag = C.role_or_fail(ctx, r, "tag_fn")
    comp = C.role_or_fail(ctx, r, "component_pred")
    if not tag or not comp:
        return r
    r.saw(tag["path"])
    r.saw(comp["path"])
    # --- tag function: the identifier arm's if-chain
    ident_arm = None
    arms = {}
    for n in walk(tag["body"]):
        if n.get("k") == "Match" and (strip_transparent(n["scrut"]).get("ty") or "").endswith("JSXElementName"):
            for a in n["arms"]:
                arms[pat_str(a["pat"]).split("(")[0]] = a
            break
    ident_arm = arms.get("Ident")
    if ident_arm is None:
        r.ob("tag function: identifier arm found", None, C.mloc(tag, tag), "no match over JSXElementName (not decided)")
    else:
        chain = None
        for n in walk(ident_arm["body"]):
            if n.get("k") == "If":
                chain = _if_chain(n)
                break
        kinds = []
        results = {}
        for cond, br in chain or []:
            kind = _classify_tag_cond(expr_str(cond)) if cond is not None else "else"
            kinds.append(kind)
            results[kind] = expr_str(br)
        for cond, br in chain or []:
            if cond is not None and _classify_tag_cond(expr_str(cond)) == "custom":
                ds = [expr_str(d_) for d_ in disjuncts(cond)]
                exact = len(ds) == 1 and re.fullmatch(r"self\.options\.custom_element_patterns\.iter\(\)\.any\(\|(\w+)\| \1\.is_match\(name\)\)", ds[0]) is not None
                r.ob("tag function: a custom element is a tag that matches a configured pattern, nothing else", exact, C.mloc(tag, cond),
                     ds[0][:90] if exact else "the test has further alternatives %s: tags are taken for custom elements whatever customElementPatterns says" % [d_[:50] for d_ in ds if "custom_element_patterns" not in d_][:2])
        order_ok = kinds == ["html", "fragment", "custom", "unresolved", "else"]
        r.ob("tag function: precedence html > Fragment > custom pattern > unresolved > bound identifier", order_ok, C.mloc(tag, ident_arm), "order found: %s" % kinds)
        want = {"html": "Lit(Str(", "custom": "Lit(Str(", "fragment": "import_from_vue('Fragment')", "unresolved": "'resolveComponent'", "else": "Ident(ident)"}
        for k, w in want.items():
            if k in results:
                r.ob("tag function: %s tag -> %s" % (k, {"html": "string", "custom": "string", "fragment": "Vue's Fragment", "unresolved": "resolveComponent(name)", "else": "the identifier"}[k]),
                     w in results[k], C.mloc(tag, ident_arm), results[k][:90])
        # resolveComponent receives the tag name
        if "unresolved" in results:
            r.ob("tag function: resolveComponent is called with the tag name", "value: name" in results["unresolved"], C.mloc(tag, ident_arm), results["unresolved"][:160])
    if "JSXMemberExpr" in arms:
        t = expr_str(arms["JSXMemberExpr"]["body"])
        r.ob("tag function: member tag -> member expression", "JSXMember(" not in t and ("jsx_member_to_expr" in t or "Member(" in t), C.mloc(tag, arms["JSXMemberExpr"]), t[:80])
    # --- component predicate
    ct = expr_str(comp["body"])
    # same HTML predicate, negated
    html_in_tag = any(_classify_tag_cond(expr_str(c)) == "html" for c, _ in (chain or []) if c is not None)
    tag_html_text = next((expr_str(c) for c, _ in (chain or []) if c is not None and _classify_tag_cond(expr_str(c)) == "html"), None)
    if tag_html_text:
        r.ob("component predicate negates the tag function's HTML/SVG predicate", ("!" + tag_html_text) in ct, C.mloc(comp, comp), "!%s" % tag_html_text[:100] if ("!" + tag_html_text) in ct else "the predicate `%s` does not occur negated in the component predicate" % tag_html_text[:100])
    r.ob("component predicate excludes custom-element patterns (all(!is_match) = !any(is_match))", ".all(|pattern| !pattern.is_match(name))" in ct or "!self.options.custom_element_patterns.iter().any(|pattern| pattern.is_match(name))" in ct, C.mloc(comp, comp), "custom_element_patterns … all(!is_match(name))")
    r.ob("component predicate excludes Fragment and KeepAlive by name", ("!is_fragment_name(name)" in ct or "(name != 'Fragment')" in ct) and "(name != 'KeepAlive')" in ct, C.mloc(comp, comp), ct[ct.find("should_transformed_to_slots ="):][:110])
    # Fragment predicate accepts the constant the tag function compares with
    for b in ctx.facts.hir:
        if b["crate"] == VISITOR_CRATE and b["name"] == "is_fragment_name" or (b["crate"] == VISITOR_CRATE and b["inputs"] == ["&str"] and b["output"] == "bool" and "'Fragment'" in expr_str(b["body"])):
            t = expr_str(b["body"])
            if "Fragment" in t:
                r.saw(b["path"])
                r.ob("the Fragment name predicate is anchored at the name `Fragment` (optional `_`, optional digits)", "strip_prefix('Fragment')" in t and "is_ascii_digit" in t, C.mloc(b, b), t[:150])
                break
    # member tags: decided without the HTML table
    member_ok = None
    for n in walk(comp["body"]):
        if n.get("k") == "If":
            ctext = expr_str(n["cond"])
            if "JSXMemberExpr" in ctext:
                tb = expr_str(n["then"])
                member_ok = "STANDARD_HTML_TAGS" not in tb and "is_match" not in tb
    r.ob("component predicate: a member tag is a component whatever its last segment is called", bool(member_ok), C.mloc(comp, comp),
         "member tags skip the lower-case / HTML-table / pattern tests" if member_ok else "no separate branch for JSXMemberExpr: `<ui.button>` would be classified by the name `button`")
    return r


def r01_2(ctx):
    r = Rule("R01.2", "every attribute is emitted exactly once on every path of its arm (v-model is the declared multi-emission arm)",
             "a dropped or doubled attribute changes the props")
    fold = C.role_or_fail(ctx, r, "attr_fold")
    if not fold:
        return r
    r.saw(fold["path"])
    cl = _fold_closure(fold)
    if cl is None:
        r.ob("fold closure", False, "-", "not found")
        return r

    def is_emission(n):
        if n.get("k") == "MethodCall" and n["method"] in ("push", "extend_from_slice", "extend"):
            lo = local_of(n["recv"])
            if lo and lo[0] in ("props", "directives"):
                return True
            if lo and lo[0] == "merge_args":
                # a flush of pending props is not an emission of the current attribute
                return not any(x.get("k") == "Call" and (x.get("callee") or "").endswith("core::mem::take") for x in walk(n["args"][0]))
        if n.get("k") == "Assign":
            lo = local_of(n["l"])
            if lo and lo[0] == "slots":
                return True
        return False

    def count(n):
        """(min, max) emissions over paths"""
        k = n.get("k")
        own = 1 if is_emission(n) else 0
        if own:
            return (1, 1)
        if k == "If":
            c = count(n["cond"])
            t = count(n["then"])
            e = count(n["else"]) if n.get("else") is not None else (0, 0)
            return (c[0] + min(t[0], e[0]), c[1] + max(t[1], e[1]))
        if k == "Match":
            s = count(n["scrut"])
            arms = [count(a["body"]) for a in n["arms"]]
            return (s[0] + min(a[0] for a in arms), s[1] + max(a[1] for a in arms))
        if k == "Closure":
            return (0, 0)
        lo, hi = 0, 0
        from ..facts import children
        for c in children(n):
            a, b = count(c)
            lo += a
            hi += b
        return (lo, hi)
    for label, arm in _top_arms(cl):
        lo, hi = count(arm["body"])
        if "VModel" in label:
            r.ob("%s: emits its props / directive / listener" % label, lo >= 2, C.mloc(fold, arm), "%d..%d emissions (value [+ modifiers], listener; or directive + listener)" % (lo, hi))
        else:
            r.ob("%s: exactly one emission on every path" % label, lo == 1 and hi == 1, C.mloc(fold, arm), "%d..%d emission(s)" % (lo, hi))
    return r


def r01_3(ctx):
    r = Rule("R01.3", "spread table: (object literal?, mergeProps?) -> own mergeProps argument / inlined properties / expression argument / spread property; mergeProps() only for two or more arguments",
             "inlining an object literal under mergeProps loses Vue's class/style/listener merging")
    fold = C.role_or_fail(ctx, r, "attr_fold")
    if not fold:
        return r
    r.saw(fold["path"])
    cl = _fold_closure(fold)
    idx = HirIndex(fold)
    spread_arm = None
    for label, arm in _top_arms(cl) if cl is not None else []:
        if label.startswith("SpreadElement"):
            spread_arm = arm
    if spread_arm is None:
        r.ob("spread arm found", None, C.mloc(fold, fold), "not found")
    else:
        table = {}
        for n in walk(spread_arm["body"]):
            act = None
            if n.get("k") == "MethodCall" and n["method"] in ("push", "extend_from_slice") and local_of(n["recv"]):
                tgt = local_of(n["recv"])[0]
                a = expr_str(n["args"][0])
                if any(x.get("k") == "Call" and (x.get("callee") or "").endswith("core::mem::take") for x in walk(n["args"][0])):
                    continue
                act = "%s.%s(%s)" % (tgt, n["method"], "Object(object)" if a.startswith("Object(object") else ("object.props" if "object.props" in a else ("Spread(spread)" if a.startswith("Spread(") else "expr")))
            if act:
                conds = set()
                child = n
                for p in idx.parents(n):
                    if p is spread_arm:
                        break
                    if p.get("k") == "If":
                        ctext = expr_str(p["cond"])
                        pos = child is p.get("then")
                        if "let Object(object)" in ctext:
                            conds.add("obj" if pos else "!obj")
                        elif ctext == "self.options.merge_props":
                            conds.add("mp" if pos else "!mp")
                    child = p
                table[tuple(sorted(conds))] = act
        want = {("mp", "obj"): "merge_args.push(Object(object))", ("!mp", "obj"): "props.extend_from_slice(object.props)",
                ("!obj", "mp"): "merge_args.push(expr)", ("!mp", "!obj"): "props.push(Spread(spread))"}
        for k, w in want.items():
            got = table.get(tuple(sorted(k)))
            r.ob("spread (%s) -> %s" % (", ".join(k), w), got == w, C.mloc(fold, spread_arm), "found: %s" % got)
    # final assembly: single merge argument is used as is, otherwise mergeProps(..)
    ok = False
    for n in walk(fold["body"]):
        if n.get("k") == "Match" and "merge_args.as_slice()" in expr_str(n["scrut"]):
            arms = {pat_str(a["pat"]): expr_str(a["body"]) for a in n["arms"]}
            one = arms.get("[$]")
            rest = arms.get("_")
            ok = one is not None and rest is not None and "'mergeProps'" in rest and "'mergeProps'" not in one
            r.ob("mergeProps(..) is called only for two or more merge arguments", ok, C.mloc(fold, n), "[one] => %s | _ => %s" % ((one or "?")[:30], (rest or "?")[:60]))
    if not ok and not any(o["key"].startswith("mergeProps(..) is called") for o in r.obs):
        r.ob("mergeProps(..) is called only for two or more merge arguments", None, C.mloc(fold, fold), "assembly match not found")
    return r


def r01_5(ctx):
    r = Rule("R01.5", "final assembly of the props expression: the attributes still pending in the accumulator reach the result on every path",
             "attributes written after the last spread are dropped when a shortcut returns before they are flushed")
    fold = C.role_or_fail(ctx, r, "attr_fold")
    imp = C.role(ctx, "import_fn")
    if not fold:
        return r
    r.saw(fold["path"])
    idx = HirIndex(fold)
    # the accumulator: the Vec<PropOrSpread> element of the fold's result tuple, as bound after the fold
    acc = None
    for n in walk(fold["body"], enter_closures=False):
        if n.get("k") == "Let" and n["pat"].get("k") == "PTuple":
            for p in n["pat"]["pats"]:
                if p.get("k") == "PBind" and (p.get("ty") or "") == "alloc::vec::Vec<%sPropOrSpread>" % AST:
                    acc = p
    if acc is None:
        # loop form: `let mut props = Vec::..;` at the top level of the function (not inside the per-attribute step)
        cl = _fold_closure(fold)
        inside_step = {id(x) for x in walk(cl["body"])} if cl is not None else set()
        for n in walk(fold["body"], enter_closures=False):
            if n.get("k") == "Let" and id(n) not in inside_step and n["pat"].get("k") == "PBind" and (n["pat"].get("ty") or "") == "alloc::vec::Vec<%sPropOrSpread>" % AST:
                acc = acc or n["pat"]
    asm = None
    for n in walk(fold["body"], enter_closures=False):
        if n.get("k") == "Let" and n.get("init") is not None and n["pat"].get("k") == "PBind" and (n["pat"].get("ty") or "") == AST + "Expr" \
                and any(const_str(x) == "mergeProps" for x in walk(n["init"])):
            asm = n
    if acc is None or asm is None:
        r.ob("assembly of the props expression found", None, C.mloc(fold, fold), "accumulator binding or assembly `let` not recognised: not decided")
        return r
    # the accumulator inside the per-attribute step is another binding of the same vector (closure parameter / the same `let mut`)
    acc_ids = {acc["id"]} | {x["id"] for x in walk(fold["body"]) if x.get("k") == "PBind" and (x.get("ty") or "") == "alloc::vec::Vec<%sPropOrSpread>" % AST and x.get("name") == acc["name"]}
    uses = lambda node: any(x.get("k") == "Path" and x["res"].get("r") == "local" and x["res"].get("id") in acc_ids for x in walk(node))
    inside = {id(x) for x in walk(asm["init"])}
    from .c02 import _leaves
    seen = {}
    for leaf in _leaves(asm["init"]):
        flushed_before = [st for st in idx.preceding_stmts(leaf) if id(st) in inside and uses(st)]
        empty_known = any((not isinstance(f, tuple)) and f.get("k") == "MethodCall" and f["method"] == "is_empty" and uses(f) for f in idx.known_true(leaf))
        taken_apart = False
        partial = None
        for f in idx.known_true(leaf):
            if (not isinstance(f, tuple)) and f.get("k") == "LetExpr" and uses(f["init"]):
                taken_apart = True
                # a slice pattern with an ignored rest (`[first, ..]`) looks at one element and forgets the others
                for pp in walk(f["pat"]):
                    if pp.get("k") == "PSlice" and pp.get("mid") is not None and pp["mid"].get("k") != "PBind":
                        partial = pat_str(f["pat"])
        if partial:
            taken_apart = False
        ok = uses(leaf) or bool(flushed_before) or empty_known or taken_apart
        key = "result `%s`: pending attributes are part of it" % expr_str(leaf)[:40]
        c = seen.get(key, 0)
        seen[key] = c + 1
        r.ob(key if not c else "%s #%d" % (key, c + 1), ok, C.mloc(fold, leaf),
             ("uses the accumulator" if uses(leaf) else "is an element of the accumulator (matched by `if let`)" if taken_apart else "flushed by an earlier statement of the assembly" if flushed_before else "accumulator known empty") if ok else
             ("the pattern `%s` matches a list with further entries and only its first is used: the others are lost" % partial[:60]) if partial else
             "this result is produced without looking at `%s`: attributes collected after the last merge argument are lost" % acc["name"])
    # with mergeProps on, every object literal built from the pending attributes is de-duplicated (class / style / listeners concatenated)
    dd = C.role(ctx, "dedupe")
    nlit = 0
    for n in walk(fold["body"]):
        if n.get("k") == "Struct" and n.get("adt") == AST + "ObjectLit":
            pv = {f["name"]: f["e"] for f in n["fields"]}.get("props")
            if pv is None or not uses(pv):
                continue
            for leaf in _leaves(pv):
                nlit += 1
                deduped = dd is not None and any(x.get("k") == "Call" and x.get("callee") == dd["path"] for x in walk(leaf))
                facts = idx.known_true(leaf)
                merge_off = any(isinstance(f, tuple) and field_path(strip_transparent(f[1])) == "self.options.merge_props" for f in facts)
                merge_on = any((not isinstance(f, tuple)) and field_path(strip_transparent(f)) == "self.options.merge_props" for f in facts)
                ok = deduped or merge_off
                if deduped and not merge_on:
                    # with mergeProps off the object keeps plain last-wins semantics: nothing may be merged then
                    on_path = any((not isinstance(f, tuple)) and any(field_path(strip_transparent(c_)) == "self.options.merge_props" for c_ in conjuncts(f)) for f in facts)
                    r.ob("object literal of pending attributes #%d is de-duplicated only when mergeProps is on" % nlit, on_path, C.mloc(fold, leaf),
                         "under merge_props" if on_path else "dedupe_props(..) also runs with mergeProps off: repeated keys are merged (class / style / listeners) or dropped instead of last-wins")
                key = "object literal of pending attributes #%d is de-duplicated when mergeProps is on" % nlit
                r.ob(key, ok, C.mloc(fold, leaf), "dedupe_props(..)" + (" under merge_props" if merge_on else "") if deduped else
                     ("only reached with mergeProps off" if merge_off else "the pending attributes go into the object literal as they are: a repeated class / style / listener key is emitted twice and the later one wins"))
    return r


def r01_6(ctx):
    r = Rule("R01.6", "repeated attributes are found by comparing their names exactly",
             "a case-insensitive comparison merges `value` with `Value` and `onClick` with `onclick`, which are different props")
    dd = C.role_or_fail(ctx, r, "dedupe")
    if not dd:
        return r
    r.saw(dd["path"])
    n = 0
    for x in walk(dd["body"]):
        if x.get("k") == "MethodCall" and x["method"] in ("eq_ignore_ascii_case", "to_lowercase", "to_ascii_lowercase", "to_uppercase", "to_ascii_uppercase"):
            sides = [x["recv"]] + list(x["args"])
            consts = [const_str(strip_transparent(s_)) for s_ in sides]
            n += 1
            ok = any(c is not None for c in consts)
            r.ob("case-insensitive test #%d in the de-duplication compares with a constant" % n, ok, C.mloc(dd, x),
                 "against %s" % [c for c in consts if c][:1] if ok else "`%s` compares two attribute names without regard to case" % expr_str(x)[:70])
    r.ob("name comparisons in the de-duplication examined", True, "-", "%d case-insensitive comparison(s)" % n)
    return r


def r01_7(ctx):
    r = Rule("R01.7", "with mergeProps on a spread is always a merge argument of its own: the properties of a spread object literal are spliced into the pending attributes only with mergeProps off",
             "spliced entries get plain last-wins semantics: a listener / class / style coming from the spread is silently replaced by a later attribute")
    fold = C.role_or_fail(ctx, r, "attr_fold")
    if not fold:
        return r
    r.saw(fold["path"])
    idx = HirIndex(fold)
    n = 0
    for x in idx.nodes:
        if x.get("k") == "MethodCall" and x["method"] in ("extend_from_slice", "extend", "append") and (local_of(x["recv"]) or ("", 0))[0] == "props" and x["args"]:
            at = expr_str(x["args"][0])
            if not at.endswith(".props"):
                continue
            n += 1
            facts = idx.known_true(x)
            off = any(isinstance(f, tuple) and field_path(strip_transparent(f[1])) == "self.options.merge_props" for f in facts)
            r.ob("splice of a spread object's properties #%d happens with mergeProps off" % n, off, C.mloc(fold, x),
                 "under !merge_props" if off else "`props.%s(%s)` is reachable with mergeProps on" % (x["method"], at[:40]))
    r.ob("splices of spread object literals examined", n > 0, "-", "%d site(s)" % n)
    return r


def r01_4(ctx):
    r = Rule("R01.4", "attribute value table: string -> whitespace-normalised fresh literal; no value -> true; namespaced name keeps its colon; transformOn helper import",
             "a wrong default or name changes the prop")
    fold = C.role_or_fail(ctx, r, "attr_fold")
    if not fold:
        return r
    r.saw(fold["path"])
    tc = C.role(ctx, "text_cleaner")
    txt = expr_str(fold["body"])
    # valueless -> true
    ok_true = False
    for n in walk(fold["body"]):
        if n.get("k") == "MethodCall" and n["method"] == "unwrap_or_else" and n["args"] and n["args"][0].get("k") == "Closure":
            t = expr_str(n["args"][0]["body"])
            if "Bool(Bool{" in t:
                ok_true = "value: True" in t
                r.ob("an attribute without a value is `true`", ok_true, C.mloc(fold, n), t[:80])
    # string value through the cleaner
    found = False
    for n in walk(fold["body"]):
        if n.get("k") == "Arm" and pat_str(n["pat"]).startswith("Lit(Str("):
            t = expr_str(n["body"])
            found = True
            # every string literal built in this arm takes its text from the cleaner (no branch hands the source text through)
            strs = [x for x in walk(n["body"]) if x.get("k") == "Struct" and x.get("adt") == AST + "Str"]
            vals = [strip_transparent({f["name"]: f["e"] for f in x["fields"]}.get("value", {})) for x in strs]
            all_clean = bool(strs) and tc is not None and all(v.get("k") == "Call" and v.get("callee") == tc["path"] for v in vals)
            r.ob("a string attribute value is cleaned and rebuilt as a fresh literal", all_clean and "raw: None" in t, C.mloc(fold, n),
                 t[:100] if all_clean else "a string literal in this arm is built from %s, not from the text cleaner's result" % [expr_str(v)[:40] for v in vals if not (v.get("k") == "Call" and tc and v.get("callee") == tc["path"])])
    if not found:
        r.ob("a string attribute value is cleaned and rebuilt as a fresh literal", None, C.mloc(fold, fold), "string arm not found")
    # expression value: handed on as written, in every arm that takes it (a guarded extra arm that builds something else from it changes the prop)
    k_e = 0
    for n in walk(fold["body"]):
        if n.get("k") == "Arm" and any(x.get("adt") == AST + "JSXAttrValue" and x.get("variant") == "JSXExprContainer" for x in walk(n["pat"])) \
                and any(x.get("adt") == AST + "JSXExpr" and x.get("variant") == "Expr" for x in walk(n["pat"])):
            k_e += 1
            ids = {x["id"] for x in walk(n["pat"]) if x.get("k") == "PBind"}
            b = strip_transparent(n["body"])
            while b.get("k") == "Block" and not b.get("stmts") and b.get("expr") is not None:
                b = strip_transparent(b["expr"])
            asis = (local_of(b) or (None, None))[1] in ids      # the bound expression itself, through clone / deref / Box only
            r.ob("an expression attribute value is passed on as written" + ("" if k_e == 1 else " #%d" % k_e), asis and n.get("guard") is None, C.mloc(fold, n),
                 "`%s`" % expr_str(n["body"])[:60] if asis and n.get("guard") is None else
                 "this arm %sbuilds `%s` from the written expression instead of handing it on" % ("(guarded by `%s`) " % expr_str(n["guard"])[:50] if n.get("guard") is not None else "", expr_str(n["body"])[:70]))
    # namespaced name
    from .symprov import find_format_call, format_parts
    okns = None
    for n in walk(fold["body"]):
        if n.get("k") == "Arm" and pat_str(n["pat"]).startswith("JSXNamespacedName("):
            fc = find_format_call(n["body"])
            if fc is not None:
                parts = format_parts(fc) or []
                lits = [v for k, v in parts if k == "lit"]
                args = [expr_str(v) for k, v in parts if k == "arg"]
                okns = lits == [":"] and len(args) == 2 and args[0].endswith("ns.sym") and args[1].endswith("name.sym")
                r.ob("a namespaced attribute name is `ns:name`", okns, C.mloc(fold, n), "format pieces %s, args %s" % (lits, args))
    # transformOn helper: import source
    mm = [hb for hb in C.visitor_methods(ctx) if hb["name"] == "visit_mut_module"]
    if mm:
        t = expr_str(mm[0]["body"])
        r.ob("the transformOn helper is imported from @vue/babel-helper-vue-transform-on (default import)", "'@vue/babel-helper-vue-transform-on'" in t and "Default(ImportDefaultSpecifier" in t, C.mloc(mm[0], mm[0]), "import source constant")
    return r


CASE_PRED = re.compile(r"^(is_ascii_\w+|is_lowercase|is_uppercase|is_alphabetic|is_alphanumeric|is_numeric|to_ascii_\w+|eq_ignore_ascii_case)$")
ON_PARAM_METHODS = {"as_bytes", "starts_with", "strip_prefix", "len", "bytes", "chars", "get", "as_str", "as_ref", "is_empty"}


def r01_8(ctx):
    """the listener predicate (`is_on`) is Vue's isOn: /^on[^a-z]/ — `on` followed by a byte that is not an ASCII lowercase letter, and nothing else"""
    r = Rule("R01.8", "the listener predicate is Vue's `isOn` (/^on[^a-z]/): the first two bytes are `on`, the third is not an ASCII lower-case letter, and the answer depends on nothing else",
             "listener keys such as `on:click`, `on-foo` or `onUpdate:modelValue` are no longer recognised: repeated ones are not merged (the later one is dropped) and their hydration hint is lost")
    fnb = C.role(ctx, "on_pred")
    sites = []
    if fnb:
        sites = [(fnb, fnb)]
    else:
        # the helper may have been written out at its call site(s): the byte pattern `[b'o', b'n', c, ..]` of a match / if-let / matches!
        for hb_ in ctx.facts.user_hir():
            for n in walk(hb_["body"]):
                if n.get("k") in ("Match", "LetExpr", "If") and n.get("k") != "If":
                    pats = [a.get("pat") for a in n.get("arms", [])] if n.get("k") == "Match" else [n.get("pat")]
                    if any(isinstance(x, dict) and x.get("k") == "PSlice" and [y.get("v") for y in walk(x) if y.get("k") == "PLit" and y.get("lit") == "byte"][:2] == [111, 110]
                           for p_ in pats if isinstance(p_, dict) for x in walk(p_)):
                        sites.append((hb_, {"k": "Block", "body": n, "path": hb_["path"]}))
        if not sites:
            C.role_or_fail(ctx, r, "on_pred")
            return r
    for fn_, b in sites:
        if b is not fnb:
            b = {"body": b["body"], "path": fn_["path"], "crate": fn_["crate"], "name": fn_.get("name"), "_host": fn_}
        _r01_8_site(ctx, r, fn_, b, "" if fnb else " (written in place in %s)" % fn_["path"])
    return r


def _r01_8_site(ctx, r, host, b, suffix):
    r.saw(host["path"])
    strs = sorted({const_str(n) for n in walk(b["body"]) if isinstance(const_str(n), str)})
    r.ob("the only string the predicate compares with is `on`" + suffix, set(strs) <= {"on"}, C.mloc(host, b['body'] if isinstance(b.get('body'), dict) and b['body'].get('sp') else host), "string constants %s" % strs if strs else "no string constant (byte pattern)")
    params = {p_.get("id") for p_ in walk(b.get("params", [])) if isinstance(p_, dict) and p_.get("k") == "PBind"} if b.get("params") else set()
    other = []
    preds = []
    parents = {}
    for par in walk(b["body"]):
        for ch in (par.values() if isinstance(par, dict) else []):
            for c in (ch if isinstance(ch, list) else [ch]):
                if isinstance(c, dict):
                    parents[id(c)] = par
    for n in walk(b["body"]):
        if n.get("k") == "MethodCall":
            rc = strip_transparent(n.get("recv")) if isinstance(n.get("recv"), dict) else None
            if CASE_PRED.match(n.get("method", "")):
                par = parents.get(id(n))
                while par is not None and par.get("k") in ("DropTemps", "Paren"):
                    par = parents.get(id(par))
                preds.append((n["method"], bool(par is not None and par.get("k") == "Unary" and par.get("op") == "!"), n))
            elif rc is not None and rc.get("k") == "Path" and (rc.get("res") or {}).get("r") == "local" and (not params or rc["res"].get("id") in params) and n["method"] not in ON_PARAM_METHODS and rc.get("ty", "").replace("&", "").strip() in ("str", "alloc::string::String", "swc_atoms::Atom"):
                other.append(n["method"])
    r.ob("nothing but the leading bytes of the name is consulted" + suffix, not other, C.mloc(host, b['body'] if isinstance(b.get('body'), dict) and b['body'].get('sp') else host), "no further method on the name" if not other else "the name is also passed to %s" % sorted(set(other)))
    ranges = [n for n in walk(b["body"]) if n.get("k") == "PRange"]
    good = [p_ for p_ in preds if p_[0] == "is_ascii_lowercase" and p_[1]]
    bad = [p_ for p_ in preds if not (p_[0] == "is_ascii_lowercase" and p_[1])]
    txt_b = expr_str(b["body"]).replace(" ", "")
    negated = any(n.get("k") == "Unary" and n.get("op") == "!" for n in walk(b["body"])) or "=>False" in txt_b
    # the same test written with the byte range: `!(b'a'..=b'z').contains(c)`, `!matches!(c, b'a'..=b'z')`, `b'a'..=b'z' => false`
    ok = bool(good) and not bad or (not preds and "97" in txt_b and "122" in txt_b and negated)
    r.ob("third byte: `not an ASCII lower-case letter`" + suffix, ok, C.mloc(host, (bad or good or [(0, 0, host)])[0][2]),
         "`!c.is_ascii_lowercase()`" if ok else ("the test on the third byte is %s: `on:click`, `on-foo`, `on_x` (not upper case, not lower case) change sides" % [("!" if p_[1] else "") + p_[0] for p_ in preds] if preds else "no recognised test on the third byte"))
    pats = [n for n in walk(b["body"]) if n.get("k") == "PLit" and n.get("lit") == "byte"]
    r.ob("first two bytes: `o`, `n`" + suffix, [p_.get("v") for p_ in pats][:2] == [111, 110] or "on" in strs, C.mloc(host, b['body'] if isinstance(b.get('body'), dict) and b['body'].get('sp') else host), "byte pattern %s" % [p_.get("v") for p_ in pats] if pats else "starts_with(\"on\")")
    return r


def rules(ctx):
    from ..engine import only
    from . import c02
    return [__import__('vjsx.rules.c10', fromlist=['x']).field_ratchet('a memo on the visitor makes the props of one element depend on an earlier one'), r01_1, r01_2, r01_3, r01_4, r01_5, r01_6, r01_7, r01_8, c14.r14_6, c02.r02_1, c02.r02_5,
            only(c07.r07_6, lambda k: "transform_attrs" in k or k.startswith("JSX attribute literal"), "string attribute values"),
            c11.r11_4]


EXPLANATION = (
    "Shape rules on the typed HIR of the tag function, the component predicate and the attribute fold. R01.1: the if-chain of the tag "
    "function classifies in the documented precedence and produces string / Fragment / resolveComponent(name) / identifier / member "
    "expression; the component predicate contains the same HTML/SVG predicate negated, the De Morgan dual of the pattern test, the "
    "Fragment/KeepAlive exclusions, and decides member tags without the HTML table. R01.2: per fold arm the number of emissions of the "
    "current attribute is exactly one on every path (min = max = 1; v-model >= 2). R01.3: the four-entry spread table and the "
    "single-argument shortcut of mergeProps. R01.4: valueless = true, string values cleaned and rebuilt, `ns:name`, transformOn helper "
    "source. R07.6 / R11.4 shared."
)
ASSUMPTIONS = ["evaluation of the props expression against a Vue runtime is not modelled; dedupe_props' merge result is not analysed"]
TRUSTED = ["rustc nightly typed HIR"]
LEVEL = "other"
LEVEL_TEXT = "Table / precedence / sibling-agreement checks that are necessary conditions of C01; runtime values of props are not computed."
LEVEL_NOTE = "Trusted: rustc HIR. Not decided: evaluation of emitted props; dedupe_props."
TECHNIQUE = "table extraction and sibling agreement on typed HIR, per-path emission counting"
