"""C07 — output is plain ECMAScript/TypeScript, or an error was reported."""
import re
from ..facts import AST, VISITOR_CRATE, PLUGIN_CRATE, walk, walk_with_parents, strip_transparent, const_str, local_of
from ..engine import Rule
from ..cfg import calls, callee_name, place_of
from . import common as C
from .symprov import SymProv, _field_chain
from .hirflow import HirIndex, calls_in

JSX_EXPR_VARIANTS = {"JSXMember", "JSXNamespacedName", "JSXEmpty", "JSXElement", "JSXFragment"}

# Reviewed exception of R07.1, structural: an `Expr::JSXEmpty` built in the arm of a match on a JSXAttrValue whose pattern is
# JSXExprContainer(JSXExpr::JSXEmptyExpr(..)) — wherever that match lives.
R071_DEAD_ARM = ("built only from JSXAttrValue::JSXExprContainer(JSXExpr::JSXEmptyExpr): the SWC parser rejects `attr={}` "
                 "(\"JSX attributes must only be assigned a non-empty expression\"), so this arm is dead for every parseable module")


def _dead_arm_sites(F):
    """{function path: number of Expr::JSXEmpty constructions inside an `attr={}` arm}"""
    out = {}
    for b in F.hir:
        for m in walk(b["body"]):
            if m.get("k") != "Match":
                continue
            for arm in m["arms"]:
                pats = list(walk(arm["pat"]))
                if any(x.get("adt") == AST + "JSXAttrValue" and x.get("variant") == "JSXExprContainer" for x in pats) \
                        and any(x.get("adt") == AST + "JSXExpr" and x.get("variant") == "JSXEmptyExpr" for x in pats):
                    n = sum(1 for x in walk(arm["body"]) if x.get("k") in ("Ctor", "Struct") and x.get("adt") == AST + "Expr" and x.get("variant") == "JSXEmpty")
                    if n:
                        out[b["path"]] = out.get(b["path"], 0) + n
    return out


def r07_1(ctx):
    r = Rule("R07.1", "no Expr::JSX* value is constructed by the transform (MIR aggregates + conversions, HIR cross-check)",
             "a constructed JSX node stays in the output AST")
    F = ctx.facts
    dead = _dead_arm_sites(F)
    for b in F.mir:
        r.saw(b["path"])
        root = b["parent"] if b["dk"] == "Closure" else b["path"]
        for blk in b["blocks"]:
            if blk.get("inlined_from") and (b["crate"], blk["inlined_from"]) in F.mir_by_path:
                continue    # a copy of a helper whose own body is still listed (it could not be folded into the HIR view): counted there
            for s in blk["stmts"]:
                if s["k"] != "assign":
                    continue
                rv = s["rv"]
                if rv.get("rk") == "agg" and rv.get("agg") == "adt" and rv.get("adt") == AST + "Expr" and rv.get("variant") in JSX_EXPR_VARIANTS:
                    key = "%s constructs Expr::%s" % (root, rv["variant"])
                    reason = R071_DEAD_ARM if (rv["variant"] == "JSXEmpty" and dead.get(root, 0) > 0) else None
                    if reason:
                        dead[root] -= 1
                        r.ob(key, True, C.mloc(b, s), "reviewed exception: " + reason)
                    else:
                        r.ob(key, False, C.mloc(b, s), "Expr::%s is constructed here, so JSX survives into the output" % rv["variant"])
            t = blk.get("term") or {}
            if t.get("k") == "call":
                cf = t.get("callee_full", "")
                # From/Into conversions JSX* -> Expr / Box<Expr>
                if re.search(r"core::convert::(From|Into)", cf) and "JSX" in cf and re.search(r"swc_ecma_ast::Expr\b", cf):
                    src = (t.get("arg_tys") or ["?"])[0]
                    if "JSX" in src:
                        r.ob("%s converts %s into Expr" % (root, src), False, C.mloc(b, t), "conversion %s builds a JSX expression" % cf)
    # HIR cross-check (second derivation of the same fact)
    hir_sites = set()
    for b in F.hir:
        for n in walk(b["body"]):
            if n.get("k") in ("Ctor", "Struct") and n.get("adt") == AST + "Expr" and n.get("variant") in JSX_EXPR_VARIANTS:
                hir_sites.add((b["path"], n["variant"]))
    mir_sites = set()
    for o in r.obs:
        m = re.match(r"(.*) constructs Expr::(\w+)$", o["key"])
        if m:
            mir_sites.add((m.group(1), m.group(2)))
    if hir_sites != mir_sites:
        r.ob("HIR/MIR agreement on JSX constructions", False, "-", "HIR sees %s, MIR sees %s" % (sorted(hir_sites), sorted(mir_sites)))
    else:
        r.ob("HIR/MIR agreement on JSX constructions", True, "-", "both views list %d construction site(s)" % len(mir_sites))
    return r


def r07_3(ctx):
    """children first, no pruning"""
    r = Rule("R07.3", "every overridden visit_mut_* visits its node's children on every path (must-pass-through)",
             "an un-traversed subtree keeps its JSX")
    F = ctx.facts
    for hb in C.visitor_methods(ctx):
        mb = C.mir_of(ctx, hb)
        if mb is None:
            continue
        r.saw(hb["path"])
        g = C.cfg_of(ctx, mb)
        through = set()
        for i, t in calls(mb):
            name = callee_name(t)
            if name.endswith("VisitMutWith<V>>::visit_mut_children_with") or name.endswith("::visit_mut_children_with"):
                # receiver must be the method's own node parameter (local _2), visitor must be self (_1)
                if _roots_at(mb, t["args"][0], 2) and _roots_at(mb, t["args"][1], 1):
                    through.add(i)
        key = "%s traverses its children" % hb["name"]
        if not through:
            # some other way of visiting (e.g. `for item in &mut node.body { item.visit_mut_with(self) }`) cannot be shown complete here
            alt = [i for i, t in calls(mb) if (callee_name(t).endswith("::visit_mut_with") or callee_name(t).endswith("visit_mut_children_with")) and
                   any(s[0] == "param" and s[1] == 2 for s in _flow(ctx, mb).op_sources(t["args"][0]))]
            if not alt:
                from . import c10 as _c10
                alt = _c10._traversal_blocks(mb, ctx.facts)
            if alt:
                r.ob(key, None, C.mloc(mb, mb), "the node is not visited through visit_mut_children_with(self) but parts of it are visited explicitly (bb%s): completeness of that traversal is not decided" % alt)
            else:
                r.ob(key, False, C.mloc(mb, mb), "no visit_mut_children_with(self) on the node parameter: the subtree is pruned")
            continue
        if g.must_pass(through):
            r.ob(key, True, C.mloc(mb, mb), "children call in bb%s lies on every entry→return path" % sorted(through))
        else:
            e = g.escaping_exit(through)
            r.ob(key, False, C.mloc(mb, mb["blocks"][e]["term"]), "return in bb%d is reachable without visiting the children (early exit before the traversal)" % e)
    return r


def _flow(ctx, mb):
    from .influence import flow_of
    return flow_of(ctx, mb)


def _roots_at(mb, op, local, depth=0):
    """does operand derive (through reborrows / moves) from param `local`?"""
    p = place_of(op)
    if p is None:
        return False
    return _local_roots_at(mb, p["l"], local, set())


def _local_roots_at(mb, l, target, seen):
    if l == target:
        return True
    if l in seen:
        return False
    seen.add(l)
    for blk in mb["blocks"]:
        for s in blk["stmts"]:
            if s["k"] == "assign" and s["lhs"]["l"] == l and not s["lhs"].get("p"):
                rv = s["rv"]
                src = None
                if rv.get("rk") in ("ref", "rawptr"):
                    src = rv["place"]["l"]
                elif rv.get("rk") in ("use", "cast"):
                    pp = place_of(rv["op"])
                    src = pp["l"] if pp else None
                if src is not None and _local_roots_at(mb, src, target, seen):
                    return True
    return False


def r07_4(ctx):
    """both JSX expression variants are replaced by the builders' results"""
    r = Rule("R07.4", "visit_mut_expr replaces Expr::JSXElement and Expr::JSXFragment with the builders' results after the child traversal",
             "a JSX expression that is not replaced is printed as JSX")
    hb = [b for b in C.visitor_methods(ctx) if b["name"] == "visit_mut_expr"]
    if len(hb) != 1:
        r.ob("visit_mut_expr exists", False, "-", "the VisitMut impl has no visit_mut_expr override: JSX expressions are never replaced")
        return r
    hb = hb[0]
    mb = C.mir_of(ctx, hb)
    g = C.cfg_of(ctx, mb)
    r.saw(hb["path"])
    builders = {}
    for role in ("element_builder", "fragment_builder"):
        b = C.role_or_fail(ctx, r, role)
        if b:
            builders[b["path"]] = role
    # children call blocks
    child_blocks = {i for i, t in calls(mb) if callee_name(t).endswith("visit_mut_children_with") and _roots_at(mb, t["args"][0], 2)}
    # find the discriminant switch on (*expr)
    for variant, role in (("JSXElement", "element_builder"), ("JSXFragment", "fragment_builder")):
        key = "Expr::%s arm assigns *expr from the %s" % (variant, role)
        arm_blocks = _switch_targets_for_variant(mb, 2, variant)
        if not arm_blocks:
            r.ob(key, False, C.mloc(mb, mb), "no switch arm tests Expr::%s on the visited expression" % variant)
            continue
        ok = False
        detail = ""
        for ab in arm_blocks:
            # every path from the arm block to return passes an assignment to (*expr) whose value comes from the builder
            assign_blocks = set()
            for blk in mb["blocks"]:
                for s in blk["stmts"]:
                    if s["k"] == "assign" and s["lhs"]["l"] == 2 and s["lhs"].get("p") == ["*"]:
                        src = place_of(s["rv"].get("op", {})) if s["rv"].get("rk") == "use" else None
                        if src and _call_dest_of(mb, src["l"], builders):
                            assign_blocks.add(blk["i"])
            # drop+replace form: `*expr = v` lowers to drop((*expr)) then assign; accept either
            if assign_blocks and g.must_pass(assign_blocks, start=ab):
                # and the child traversal dominates the replacement
                if child_blocks and all(g.must_pass(child_blocks, start=0, ends={a}) for a in assign_blocks if g.can_reach(ab, a)):
                    ok = True
                    detail = "arm bb%d → assignment in bb%s, dominated by the child traversal bb%s" % (ab, sorted(assign_blocks), sorted(child_blocks))
                else:
                    detail = "replacement is not dominated by the child traversal"
            else:
                detail = "a path from the Expr::%s arm (bb%d) reaches return without `*expr = <builder result>`" % (variant, ab)
        r.ob(key, ok, C.mloc(mb, mb), detail)
    return r


def _switch_targets_for_variant(mb, param_local, variant):
    """blocks entered when the discriminant of (*param) equals `variant`"""
    out = []
    for blk in mb["blocks"]:
        t = blk.get("term") or {}
        if t.get("k") != "switch":
            continue
        dl = place_of(t["discr"])
        if not dl:
            continue
        # find discriminant assignment in this block
        for s in blk["stmts"]:
            if s["k"] == "assign" and s["lhs"]["l"] == dl["l"] and s["rv"].get("rk") == "discr":
                pl = s["rv"]["place"]
                if pl["l"] == param_local and pl.get("p") == ["*"]:
                    vmap = {v[1]: v[0] for v in s["rv"].get("variants", [])}
                    if variant in vmap:
                        for val, tgt in t["targets"]:
                            if val == vmap[variant]:
                                out.append(tgt)
    return out


def _call_dest_of(mb, local, callees):
    for i, t in calls(mb):
        if t["dest"]["l"] == local and not t["dest"].get("p"):
            name = callee_name(t)
            if name in callees:
                return True
    return False


# ------------------------------------------------------------------------------------------
SYM_SRC_TYPES = ("swc_atoms::Atom", "&str", "alloc::string::String", "alloc::borrow::Cow<'_, str>", "&swc_atoms::Atom",
                 "&alloc::string::String")
IDENT_CTORS = ("swc_ecma_ast::Ident::new", "swc_ecma_ast::Ident::new_no_ctxt", "swc_ecma_ast::Ident::new_private",
               "swc_ecma_ast::IdentName::new", "swc_ecma_ast::Ident::from_idx")

CONFIG_FIELDS = {"self.options.pragma": "configuration value documented as the name of the vnode factory; not module input"}


def ident_sites(body):
    """yield (site_node, symbol_expr) for every construction of an identifier node from text"""
    for n, ps in walk_with_parents(body["body"]):
        k = n.get("k")
        if k == "MethodCall" and n["method"] == "into":
            cf = n.get("callee_full", "")
            m = re.match(r"<(.+) as core::convert::Into<swc_ecma_ast::(Ident|IdentName|BindingIdent)>>::into$", cf)
            if m and m.group(1) in SYM_SRC_TYPES:
                yield n, n["recv"], ps
        elif k == "Call":
            cal = n.get("callee", "")
            cf = n.get("callee_full", "")
            if cal in IDENT_CTORS and n["args"]:
                yield n, n["args"][0], ps
            else:
                m = re.match(r"<swc_ecma_ast::(Ident|IdentName|BindingIdent) as core::convert::From<(.+)>>::from$", cf)
                if m and m.group(2) in SYM_SRC_TYPES and n["args"]:
                    yield n, n["args"][0], ps
        elif k == "Struct" and n.get("adt") in (AST + "Ident", AST + "IdentName"):
            for f in n["fields"]:
                if f["name"] == "sym":
                    yield n, f["e"], ps


IDENT_CHARS = re.compile(r"^[A-Za-z0-9_$]*$")


def r07_2(ctx):
    r = Rule("R07.2", "identifier nodes are only built from identifier text (constants checked, input identifier symbols, validated strings)",
             "an identifier node whose text is not an identifier prints as non-program text")
    F = ctx.facts
    sp = SymProv(ctx)
    bodies = [b for b in F.hir if not b.get("mac") and b["crate"] in (VISITOR_CRATE, PLUGIN_CRATE)]
    by_path = {b["path"]: b for b in bodies}
    counters = {}

    def call_sites(fn_path):
        out = []
        for b in bodies:
            for n in walk(b["body"]):
                if n.get("k") == "Call" and n.get("callee") == fn_path:
                    out.append((b, n["args"]))
                elif n.get("k") == "MethodCall" and n.get("callee") == fn_path:
                    out.append((b, [n["recv"]] + n["args"]))
        return out

    def container_writers(ty, fp, path):
        """values ever inserted into containers of this element type"""
        elem_key = None
        m = re.search(r"(IndexSet|BTreeSet|Vec|HashSet)<(.+)>$", ty.lstrip("&").replace("mut ", ""))
        is_map = re.search(r"(BTreeMap|HashMap|IndexMap)<", ty)
        out = []
        closed = True
        for b in bodies:
            for n in walk(b["body"]):
                if n.get("k") != "MethodCall":
                    continue
                rty = (n["recv"].get("tya") or n["recv"].get("ty") or "").lstrip("&").replace("mut ", "")
                if _same_container(rty, ty):
                    if n["method"] in ("insert", "push", "entry", "replace"):
                        out.append((b, n["args"][0]))
                    elif n["method"] in ("extend", "extend_from_slice", "append"):
                        aty = n["args"][0].get("ty", "")
                        inner = _elem_ty(ty)
                        if inner and inner in aty:
                            continue   # same family: closed under the summary
                        # `c.extend(xs.iter().map(|x| <value>))`: the closure's value is what gets inserted
                        a0 = strip_transparent(n["args"][0])
                        if a0.get("k") == "MethodCall" and a0.get("method") == "map" and a0.get("args") and strip_transparent(a0["args"][0]).get("k") == "Closure":
                            out.append((b, strip_transparent(a0["args"][0])["body"]))
                            continue
                        closed = False
        return out, closed

    def judge(body, site, leaves, depth=0):
        """returns (ok, text) ; ok False = violation, None = undecided"""
        verdicts = []
        for kind, d in leaves:
            if kind == "const":
                if d == "":
                    if sp.diag_before(body, site):
                        verdicts.append((True, 'empty placeholder after a reported error'))
                    else:
                        verdicts.append((False, 'the empty string is used as an identifier without any diagnostic'))
                elif C.is_ident_name(d):
                    verdicts.append((True, 'constant "%s"' % d))
                else:
                    verdicts.append((False, 'constant "%s" is not an identifier name' % d))
            elif kind == "format":
                text_ok = True
                why = []
                first = True
                for k2, d2 in d:
                    if k2 == "const_piece":
                        if not IDENT_CHARS.match(d2) or (first and d2 and not re.match(r"[A-Za-z_$]", d2[0])):
                            text_ok = False
                            why.append('piece "%s"' % d2)
                    elif k2 == "int":
                        if first:
                            text_ok = False
                            why.append("number first")
                    else:
                        ok, t = judge(body, site, [(k2, d2)], depth + 1)
                        if ok is not True:
                            text_ok = ok
                            why.append(t)
                    first = False
                verdicts.append((text_ok, "format!(%s)" % ", ".join(why) if why else "format! of identifier pieces"))
            elif kind == "input_ident":
                verdicts.append((True, "symbol of an input identifier"))
            elif kind == "int":
                verdicts.append((True, "integer"))
            elif kind == "validated":
                if strict[0] and d in WEAK_VALIDATORS:
                    verdicts.append((False, "validated by %s only, which accepts reserved words (`function`, `new`, ...): as a binding / reference identifier such text is not a program" % d.split("::")[-1]))
                else:
                    verdicts.append((True, "validated by " + d))
            elif kind == "param":
                fn, idx = d
                if depth > 4:
                    verdicts.append((None, "parameter chain too deep"))
                    continue
                sites = call_sites(fn)
                if not sites:
                    verdicts.append((None, "parameter %d of %s has no local call site" % (idx, fn)))
                for cb, args in sites:
                    hb = by_path.get(fn)
                    off = 0
                    if idx < len(args):
                        ok, t = judge(cb, args[idx], sp.prov(cb, args[idx]), depth + 1)
                        verdicts.append((ok, "arg of %s in %s: %s" % (fn.split("::")[-1], cb["name"], t)))
            elif kind == "field":
                if d in CONFIG_FIELDS:
                    verdicts.append((True, "reviewed: %s — %s" % (d, CONFIG_FIELDS[d])))
                elif d.startswith("self."):
                    # every write of this visitor field must store validated text
                    fname = d.split(".", 1)[1]
                    ws = field_writes(fname)
                    if not ws:
                        verdicts.append((None, "field %s has no writer" % d))
                    for wb, wnode, val in ws:
                        ok, t = judge(wb, wnode, sp.prov(wb, val), depth + 1)
                        verdicts.append((ok, "write of %s in %s: %s" % (d, wb["name"], t)))
                else:
                    verdicts.append((False, "text of field %s is not validated" % d))
            elif kind == "collection":
                ty, fp, path = d
                v = sp.validated_here(body, site, _sym_expr_of(site))
                if v:
                    verdicts.append((True, "element of %s validated by %s on this path" % (fp, v)))
                    continue
                ws, closed = container_writers(ty, fp, path)
                if not ws or not closed:
                    verdicts.append((False, "elements of %s (%s) are arbitrary strings and no validator guards this use" % (fp, _short(ty))))
                    continue
                allok = True
                texts = []
                for wb, val in ws:
                    ok, t = judge(wb, val, sp.prov(wb, val), depth + 1)
                    if ok is not True:
                        allok = ok if allok is True else allok
                        texts.append("%s in %s" % (t, wb["name"]))
                verdicts.append((allok, "contents of %s: %s" % (_short(ty), "; ".join(texts) if texts else "%d writer(s), all identifier text" % len(ws))))
            elif kind == "str_value":
                v = sp.validated_here(body, site, _sym_expr_of(site))
                verdicts.append((True, "validated by " + v) if v else (False, "value of a string literal from the input is used as identifier text unvalidated"))
            elif kind == "derived":
                v = sp.validated_here(body, site, _sym_expr_of(site))
                verdicts.append((True, "validated by " + v) if v else (False, "text derived by %s() from %s is not validated" % (d[0], d[1])))
            else:
                v = sp.validated_here(body, site, _sym_expr_of(site))
                verdicts.append((True, "validated by " + v) if v else (False, "provenance unknown (%s): not shown to be identifier text" % (d,)))
        if any(v[0] is False for v in verdicts):
            return False, "; ".join(t for ok, t in verdicts if ok is False)
        if any(v[0] is None for v in verdicts):
            return None, "; ".join(t for ok, t in verdicts if ok is None)
        return True, "; ".join(sorted({t for ok, t in verdicts}))[:300]

    _site_sym = {}
    strict = [False]     # the identifier under judgement is a binding / reference (Ident), not a property name (IdentName)

    def _sym_expr_of(site):
        return _site_sym.get(id(site), site)

    def field_writes(fname):
        out = []
        for b in bodies:
            for n in walk(b["body"]):
                if n.get("k") == "Assign":
                    l = strip_transparent(n["l"])
                    if l.get("k") == "Field" and l["name"] == fname and _field_chain(l).startswith("self."):
                        v = n["r"]
                        # Some(x) wrapper
                        vs = strip_transparent(v)
                        if vs.get("k") == "Ctor" and vs.get("variant") == "Some" and vs["args"]:
                            v = vs["args"][0]
                        out.append((b, n, v))
        return out

    for b in bodies:
        r.saw(b["path"])
        for site, sym, ps in ident_sites(b):
            _site_sym[id(site)] = sym
            # position exemption: JSX attribute names (decoupler) are consumed as strings, never printed
            pos = None
            for p in reversed(ps):
                if p.get("k") in ("Ctor", "Struct") and p.get("adt") in (AST + "JSXAttrName", AST + "JSXNamespacedName"):
                    pos = p.get("adt")
                    break
                if p.get("k") in ("Ctor", "Struct") and (p.get("adt") or "").startswith(AST) and p.get("adt") not in (AST + "Ident", AST + "IdentName"):
                    break
            leaves = sp.prov(b, sym)
            descr = _describe(leaves)
            base = "%s: identifier from %s" % (b["path"], descr)
            n = counters.get(base, 0)
            counters[base] = n + 1
            key = base if n == 0 else "%s #%d" % (base, n + 1)
            if pos:
                r.ob(key, True, C.mloc(b, site), "position exemption: becomes a %s, read back as a string by the directive parser" % pos.split("::")[-1])
                continue
            sty = (site.get("ty") or site.get("adt") or "")
            strict[0] = sty in (AST + "Ident", AST + "BindingIdent")
            if not strict[0]:
                # an IdentName converted into an Ident (`quote_ident!(..).into()`) ends up as a binding / reference all the same
                for p in list(reversed(ps))[:4]:
                    if p.get("k") in ("MethodCall", "Call") and (p.get("method") in ("into",) or (p.get("callee") or "").endswith(("::into", "::from"))) \
                            and (p.get("ty") or "") in (AST + "Ident", AST + "BindingIdent"):
                        strict[0] = True
            ok, text = judge(b, site, leaves)
            r.ob(key, ok, C.mloc(b, site), text)
    return r


# validators that check identifier *characters* only (fine for property names, not for bindings / references)
WEAK_VALIDATORS = {"swc_ecma_utils::is_valid_prop_ident", "swc_ecma_ast::Ident::is_valid_start", "swc_ecma_ast::Ident::is_valid_continue",
                   "swc_ecma_ast::Ident::is_valid_ascii_start", "swc_ecma_ast::Ident::is_valid_ascii_continue"}


def _describe(leaves):
    out = []
    for k, d in leaves:
        if k == "const":
            out.append('"%s"' % d)
        elif k == "format":
            out.append("format(" + "+".join(('"%s"' % x[1]) if x[0] == "const_piece" else x[0] for x in d) + ")")
        elif k == "collection":
            out.append("element of " + d[1])
        elif k == "field":
            out.append(d)
        elif k == "param":
            out.append("param %d" % d[1])
        else:
            out.append(k)
    return "|".join(out)[:120]


def _short(ty):
    return re.sub(r"(?:[a-z_][A-Za-z0-9_]*::)+", "", ty)


def _elem_ty(ty):
    m = re.search(r"<(.+)>$", ty.lstrip("&").replace("mut ", ""))
    if not m:
        return None
    inner = m.group(1)
    # first generic argument
    depth = 0
    for i, ch in enumerate(inner):
        if ch == "<":
            depth += 1
        elif ch == ">":
            depth -= 1
        elif ch == "," and depth == 0:
            return inner[:i]
    return inner


def _same_container(a, b):
    a = a.lstrip("&").replace("mut ", "")
    b = b.lstrip("&").replace("mut ", "")
    ha, hb = a.split("<")[0], b.split("<")[0]
    return ha == hb and _elem_ty(a) == _elem_ty(b)


# ------------------------------------------------------------------------------------------
def r07_5(ctx):
    """object keys built as PropName::Ident / MemberProp::Ident share R07.2 (they are IdentName
    constructions); this rule covers the *string* → key choice: quote unless validated"""
    r = Rule("R07.5", "PropName::Ident keys from runtime strings are guarded by an identifier validator (else PropName::Str)",
             "an unquoted non-identifier key does not parse")
    # covered by R07.2 through IdentName constructions; kept as an explicit count of key sites
    sp = SymProv(ctx)
    for b in ctx.facts.hir:
        if b.get("mac") or b["crate"] != VISITOR_CRATE:
            continue
        for n, ps in walk_with_parents(b["body"]):
            if n.get("k") == "Ctor" and n.get("adt") == AST + "PropName" and n.get("variant") == "Ident" and n["args"]:
                arg = n["args"][0]
                for site, sym, _ in ident_sites({"body": arg}):
                    leaves = sp.prov(b, sym)
                    nonconst = [l for l in leaves if l[0] not in ("const", "input_ident")]
                    if nonconst:
                        v = sp.validated_here(b, site, sym)
                        r.ob("%s: PropName::Ident key from %s" % (b["path"], _describe(leaves)), True if v else None, C.mloc(b, n),
                             ("guarded by %s" % v) if v else "decided by R07.2")
                    else:
                        r.ob("%s: PropName::Ident key from %s" % (b["path"], _describe(leaves)), True, C.mloc(b, n), "constant / input identifier (text checked by R07.2)")
    # de-duplicate keys
    seen = {}
    for o in r.obs:
        c = seen.get(o["key"], 0)
        seen[o["key"]] = c + 1
        if c:
            o["key"] += " #%d" % (c + 1)
    return r


def r07_6(ctx):
    r = Rule("R07.6", "string literals of JSX attributes are never copied verbatim (with their raw JSX source text) into the output",
             "JSX strings have no escapes: their raw text printed as a JS string literal is a different string or not a program")
    n_bind = 0
    for b in ctx.facts.hir:
        if b.get("mac") or b["crate"] != VISITOR_CRATE:
            continue
        idx = None
        for node in walk(b["body"]):
            if node.get("k") == "MethodCall" and node["method"] in ("clone", "to_owned") and (node.get("ty") or "") in (AST + "Str", AST + "Lit", AST + "JSXText"):
                lo = local_of(node["recv"])
                if not lo:
                    continue
                idx = idx or HirIndex(b)
                bd = idx.binding.get(lo[1])
                path = (bd or {}).get("path") or ()
                from_jsx = any(p[0] == "tfield" and (p[1] or "").endswith("JSXAttrValue") and p[2] == "Lit" for p in path)
                r.saw(b["path"])
                if from_jsx:
                    r.ob("%s clones the literal of a JSX attribute value" % b["path"], False, C.mloc(b, node),
                         "`%s.clone()` keeps the `raw` JSX source text: build a fresh literal from `.value` instead" % lo[0])
        for node in walk(b["body"]):
            if node.get("k") in ("PTupleStruct",) and node.get("adt") == AST + "JSXAttrValue" and node.get("variant") == "Lit":
                n_bind += 1
    r.ob("JSX attribute literal patterns examined", n_bind > 0, "-", "%d pattern(s) over JSXAttrValue::Lit; no verbatim clone of their literal" % n_bind)
    return r


def r07_7(ctx):
    r = Rule("R07.7", "copies of user expressions that go into generated options (props / emits of defineComponent) are taken after the node's children were traversed",
             "a default value copied before the traversal keeps its JSX: the copy in `props: {x: {default: <i/>}}` is never lowered")
    from . import c10
    copiers = {}
    for role in ("props_extractor", "emits_extractor"):
        b = C.role(ctx, role)
        if b is not None:
            copiers[b["path"]] = role
    n = 0
    for hb, mb in c10._method_bodies(ctx):
        sites = [(i, t) for i, t in calls(mb) if callee_name(t) in copiers]
        if not sites:
            continue
        r.saw(mb["path"])
        g = C.cfg_of(ctx, mb)
        trav = c10._traversal_blocks(mb, ctx.facts)
        for i, t in sites:
            n += 1
            ok = any(g.dominates(tb, i) and i in g.reach_after(tb) for tb in trav)
            r.ob("%s: %s runs after the children were traversed" % (hb["name"], copiers[callee_name(t)]), ok, C.mloc(mb, t),
                 "dominated by the traversal in bb%s" % trav if ok else "called before (or without) visit_mut_children_with: expressions it copies out of the arguments are still unlowered")
    if not n:
        r.ob("call sites of the option extractors found", None if not copiers else False, "-", "no hook calls %s" % sorted(copiers.values()))
    return r


def r07_8(ctx):
    r = Rule("R07.8", "the expression a v-model binds becomes the left side of a generated assignment: it is checked to be an assignment target, or an error is reported",
             "`v-model={a + b}` prints `$event => (a + b) = $event`, which is not a program")
    from .symprov import unconditional_diag
    vm = C.role(ctx, "v_model_parser")
    if vm is None:
        r.ob("v-model parser found", None, "-", "role not resolved: not decided")
        return r
    r.saw(vm["path"])
    idx = HirIndex(vm)
    built = [n for n in idx.nodes if n.get("k") == "Struct" and (n.get("adt") or "").endswith("VModelDirective")]
    for n in built:
        val = {f["name"]: f["e"] for f in n["fields"]}.get("value")
        vlo = local_of(val) if val is not None else None
        ok = False
        why = "no check of the bound expression precedes the construction"
        for st in idx.preceding_stmts(n):
            if st.get("k") != "If" or st.get("else") is not None:
                continue
            c = strip_transparent(st["cond"])
            neg = c.get("k") == "Unary" and c.get("op") == "!"
            inner = strip_transparent(c["e"]) if neg else c
            mentions = vlo is not None and any(local_of(x) == vlo for x in walk(inner) if x.get("k") == "Path")
            reports = any(unconditional_diag(x) for x in ([st["then"]] + list(st["then"].get("stmts", []))))
            if not (mentions and reports):
                continue
            # the predicate accepts identifiers and member expressions (looked up in the local function, or a `matches!` in place)
            pred_nodes = [inner]
            if inner.get("k") in ("Call", "MethodCall"):
                hb2 = ctx.facts.hir_by_path.get((vm["crate"], inner.get("callee")))
                if hb2 is not None:
                    pred_nodes.append(hb2["body"])
                    r.saw(hb2["path"])
            variants = {x.get("variant") for pn in pred_nodes for x in walk(pn) if x.get("k") in ("PTupleStruct", "PStruct") and x.get("adt") == AST + "Expr"}
            if neg and {"Ident", "Member"} <= variants and not ({"Call", "Bin", "Lit", "Cond", "Unary", "Array", "Object", "OptChain"} & variants):
                ok, why = True, "`if !<assignable>(value) { span_err }` with target forms %s" % sorted(v for v in variants if v)
            else:
                why = "the check before the construction accepts %s" % sorted(v for v in variants if v)
        r.ob("VModelDirective is built after its value was checked to be assignable", ok, C.mloc(vm, n), why)
    if not built:
        r.ob("construction of VModelDirective found", None, C.mloc(vm, vm), "not found: not decided")
    return r


def rules(ctx):
    out = [r07_1, r07_2, r07_3, r07_4, r07_6, r07_7, r07_8]
    if ctx.tier == "thorough":
        from . import controls
        out.append(controls.control_rule([("R07.1", r07_1, ["jsx_empty", "jsx_conversion"])]))
    return out


EXPLANATION = (
    "Static argument, sufficient modulo the printer: (i) the parser yields JSX only as Expr::JSXElement/JSXFragment and nodes "
    "nested inside them (trusted); (ii) R07.3/R07.4: every overridden visit_mut_* visits its children on every path and "
    "visit_mut_expr replaces both variants by the builders' results after the traversal; (iii) R07.1: no body of either crate "
    "constructs an Expr::JSX* value (type-resolved MIR aggregates + From/Into conversions, re-derived from HIR); R07.2/R07.5: every "
    "construction of an identifier node from text is an obligation on the text's provenance (constants are checked to be identifier "
    "names, the empty placeholder needs a diagnostic on its path, runtime strings need a dominating validator). Obligations are rule "
    "instances over the compiler's resolved program, enumerated exhaustively for the current tree."
)
ASSUMPTIONS = [
    "swc_ecma_parser produces JSX only as Expr::JSXElement/Expr::JSXFragment and nodes nested inside them; JSX identifiers are non-empty; `attr={}` is rejected",
    "swc_ecma_visit's generated visit_mut_children_with visits every child node",
    "swc_ecma_codegen prints a JSX-free AST whose identifier nodes hold identifier text as parseable source (printer/parser round trip is not analysed)",
    "options.pragma is configuration documented to be an identifier name (reviewed exception of R07.2)",
]
TRUSTED = ["rustc nightly HIR/MIR of the two crates", "swc_ecma_parser invariants listed under assumptions", "swc_ecma_visit traversal completeness", "swc_ecma_codegen"]
LEVEL = "other"
LEVEL_TEXT = ("Exhaustive enumeration of rule instances over the compiler-resolved program (all bodies of both crates): no JSX "
              "expression node is constructed, every traversal method visits its children on all paths, both JSX expression variants "
              "are replaced, and every identifier node built from text has checked provenance. Together with the stated parser/printer "
              "assumptions this is a sufficient condition for 'no JSX left and identifier text is identifier text'; it does not analyse "
              "the printer/parser round trip.")
LEVEL_NOTE = ("Trusted: rustc's HIR/MIR, swc parser invariants (JSX only as the two Expr variants; `attr={}` rejected; identifiers non-empty), "
              "swc_ecma_visit completeness, swc_ecma_codegen. Not decided: printer/parser round trip; validity of user-written non-assignable "
              "v-model targets.")
TECHNIQUE = "type-resolved MIR aggregate scan + CFG must-pass-through/dominance + HIR string-provenance of identifier constructors"
