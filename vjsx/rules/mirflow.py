"""Backward provenance over one MIR body (A3) and mutation events (A4)."""
import re
from ..cfg import calls, callee_name, place_of, op_const

# callees whose result is (a view of / a copy of / derived only from) their first argument
TRANSPARENT = re.compile(
    r"(::deref$|::deref_mut$|::as_ref$|::as_mut$|::as_deref$|::as_deref_mut$|::borrow$|::borrow_mut$|::clone$|::to_owned$|::into$|::from$"
    r"|::as_slice$|::as_mut_slice$|::as_str$|::as_bytes$|::to_string$|::unwrap_or_default$|::iter$|::iter_mut$|::into_iter$|::get_mut$|::get$"
    r"|::first$|::first_mut$|::last$|::last_mut$|Box::<T>::new$|::as_expr$|::as_ident$|::as_array$|::as_lit$|::as_prop$|::as_key_value$|::index$|::index_mut$"
    r"|::unwrap$|::expect$|::copied$|::cloned$|::take$|::to_vec$|::enumerate$|::peekable$|::by_ref$|::rev$|::as_ptr$|core::hint::must_use$)")


class Flow:
    def __init__(self, body):
        self.body = body
        self.defs = {}       # local -> list of ("stmt", bb, stmt) / ("call", bb, term)
        for blk in body["blocks"]:
            for s in blk["stmts"]:
                if s["k"] == "assign":
                    self.defs.setdefault(s["lhs"]["l"], []).append(("stmt", blk["i"], s))
            t = blk.get("term") or {}
            if t.get("k") == "call":
                self.defs.setdefault(t["dest"]["l"], []).append(("call", blk["i"], t))
        self.nargs = body["arg_count"]
        # parameters of helpers inlined by the normaliser: like real parameters, a store into one of their fields
        # does not change what they *are* (they are defined once, by `param := argument` at the inlining site)
        self.inl_params = set(body.get("inlined_params") or [])
        self._memo = {}

    def sources(self, local, depth=0, seen=None):
        """set of source descriptors for the value held in `local`:
        ('param', i, path) ('call', callee, bb) ('const', repr) ('agg', adt, variant) ('upvar', name, path)
        ('field', root_desc, path) ('unknown', why)"""
        key = local
        if seen is None:
            seen = set()
            if key in self._memo:
                return self._memo[key]
        if local in seen or depth > 40:
            return set()
        seen = seen | {local}
        out = set()
        if 1 <= local <= self.nargs:
            out.add(("param", local, ""))
        for kind, bb, d in self.defs.get(local, []):
            if kind == "stmt":
                # only whole-local definitions describe the value; field stores taint it
                rv = d["rv"]
                if d["lhs"].get("p"):
                    # a store into a field of a parameter does not change what the parameter *is*
                    if 1 <= local <= self.nargs or local in self.inl_params:
                        continue
                    out |= self._rv_sources(rv, depth, seen)
                    continue
                out |= self._rv_sources(rv, depth, seen)
            else:
                name = callee_name(d)
                if TRANSPARENT.search(name) and d["args"]:
                    a = d["args"][0]
                    p = place_of(a)
                    if p is not None:
                        inner = self._place_sources(p, depth, seen)
                        out |= {self._via(s, name.split("::")[-1]) for s in inner}
                    else:
                        out.add(("const", repr(op_const(a))))
                    out.add(("call", name, bb))
                else:
                    out.add(("call", name, bb))
        if not out:
            out.add(("unknown", "no definition of _%d" % local))
        if len(seen) == 1:
            self._memo[key] = out
        return out

    @staticmethod
    def _via(s, step):
        return s

    def _place_sources(self, p, depth, seen):
        l = p["l"]
        proj = "".join(x if isinstance(x, str) else "[]" for x in (p.get("p") or []))
        if p.get("upvar"):
            return {("upvar", p["upvar"], proj)}
        base = self.sources(l, depth + 1, seen)
        out = set()
        for s in base:
            if s[0] == "param":
                out.add(("param", s[1], s[2] + proj))
            elif s[0] == "upvar":
                out.add(("upvar", s[1], s[2] + proj))
            else:
                out.add(s)
        return out

    def _rv_sources(self, rv, depth, seen):
        rk = rv.get("rk")
        out = set()
        if rk in ("use", "cast", "repeat", "wrapbinder"):
            op = rv["op"]
            p = place_of(op)
            if p is not None:
                out |= self._place_sources(p, depth, seen)
            else:
                c = op_const(op) or {}
                out.add(("const", c.get("str", c.get("int", c.get("bool", c.get("fn", c.get("ty")))))))
        elif rk in ("ref", "rawptr"):
            out |= self._place_sources(rv["place"], depth, seen)
        elif rk == "discr":
            out |= {("discr",) + s for s in self._place_sources(rv["place"], depth, seen)}
        elif rk in ("binop",):
            for k in ("a", "b"):
                p = place_of(rv[k])
                if p is not None:
                    out |= self._place_sources(p, depth, seen)
                else:
                    c = op_const(rv[k]) or {}
                    out.add(("const", c.get("int", c.get("bool", c.get("ty")))))
        elif rk == "unop":
            p = place_of(rv["a"])
            if p is not None:
                out |= self._place_sources(p, depth, seen)
        elif rk == "agg":
            out.add(("agg", rv.get("adt") or rv.get("agg"), rv.get("variant")))
            for o in rv.get("ops", []):
                p = place_of(o)
                if p is not None:
                    out |= self._place_sources(p, depth, seen)
        else:
            out.add(("unknown", rk))
        return out

    # ---- data dependence (A5): like sources, but a call result depends on all its arguments ----
    def deps(self, local, seen=None):
        if seen is None:
            seen = set()
        if local in seen:
            return set()
        seen.add(local)
        out = set()
        if 1 <= local <= self.nargs:
            out.add(("param", local, ""))
        for kind, bb, d in self.defs.get(local, []):
            if kind == "stmt":
                if d["lhs"].get("p") and (1 <= local <= self.nargs or local in self.inl_params):
                    continue
                out |= self._rv_deps(d["rv"], seen)
            else:
                out.add(("call", callee_name(d), bb))
                for a in d["args"]:
                    p = place_of(a)
                    if p is not None:
                        out |= self._place_deps(p, seen)
        return out

    def _place_deps(self, p, seen):
        proj = "".join(x if isinstance(x, str) else "[]" for x in (p.get("p") or []))
        if p.get("upvar"):
            return {("upvar", p["upvar"], proj)}
        out = set()
        for s in self.deps(p["l"], seen):
            if s[0] == "param":
                out.add(("param", s[1], s[2] + proj))
            elif s[0] == "upvar":
                out.add(("upvar", s[1], s[2] + proj))
            else:
                out.add(s)
        # index locals
        for x in (p.get("p") or []):
            if isinstance(x, dict) and "index" in x:
                out |= self.deps(x["index"], seen)
        return out

    def _rv_deps(self, rv, seen):
        out = set()
        rk = rv.get("rk")
        ops = []
        if rk in ("use", "cast", "repeat", "wrapbinder"):
            ops = [rv["op"]]
        elif rk in ("ref", "rawptr", "discr"):
            return self._place_deps(rv["place"], seen)
        elif rk == "binop":
            ops = [rv["a"], rv["b"]]
        elif rk == "unop":
            ops = [rv["a"]]
        elif rk == "agg":
            ops = rv.get("ops", [])
            out.add(("agg", rv.get("adt") or rv.get("agg"), rv.get("variant")))
            if rv.get("agg") == "closure":
                # what a closure captures influences what the closure *does*; that is analysed in the closure's own body
                # (its upvars are named there), not attributed to every value computed with the closure
                ops = []
        for o in ops:
            p = place_of(o)
            if p is not None:
                out |= self._place_deps(p, seen)
        return out

    def op_deps(self, op):
        p = place_of(op)
        return self._place_deps(p, set()) if p is not None else set()

    def op_sources(self, op):
        p = place_of(op)
        if p is not None:
            return self._place_sources(p, 0, set())
        c = op_const(op) or {}
        return {("const", c.get("str", c.get("int", c.get("bool", c.get("fn", c.get("ty"))))))}

    def place_sources(self, p):
        return self._place_sources(p, 0, set())


def self_field_of(sources):
    """field paths of self (param 1 / upvar self) appearing in a source set, e.g. '.options.optimize'"""
    out = set()
    for s in sources:
        if s[0] == "discr":
            s = s[1:]
        if s[0] == "param" and s[1] == 1:
            out.add(_clean(s[2]))
        elif s[0] == "upvar":
            name = s[1]
            # closure captures render as `*self.options.optimize` / `self.injecting_consts`
            m = re.match(r"\*?\(?\*?self\)?(\..*)?$", name.replace(" ", ""))
            if m:
                out.add(_clean((m.group(1) or "") + s[2]))
    return out


def _clean(path):
    path = path.replace("*", "")
    path = re.sub(r"\.<upvar [^>]*>", "", path)
    return path


def mut_events(body, flow=None):
    """every event that can mutate memory reachable from a local: calls with a `&mut` argument and
    stores through a deref. Returns list of dicts: kind, bb, sources (of the mutated place), callee, term/stmt"""
    flow = flow or Flow(body)
    out = []
    for blk in body["blocks"]:
        if blk.get("cleanup"):
            continue    # unwind-only blocks (drop elaboration duplicates stores there)
        for s in blk["stmts"]:
            if s["k"] in ("assign", "setdiscr"):
                lhs = s["lhs"]
                projs = lhs.get("p") or []
                if "*" in projs or lhs.get("upvar"):
                    out.append({"kind": "store", "bb": blk["i"], "sources": flow.place_sources(lhs), "place": lhs["s"], "node": s})
                elif projs and (1 <= lhs["l"] <= body["arg_count"]):
                    out.append({"kind": "store", "bb": blk["i"], "sources": flow.place_sources(lhs), "place": lhs["s"], "node": s})
        t = blk.get("term") or {}
        if t.get("k") == "call":
            for i, (a, ty) in enumerate(zip(t["args"], t.get("arg_tys", []))):
                if ty.startswith("&mut "):
                    out.append({"kind": "call", "bb": blk["i"], "sources": flow.op_sources(a), "callee": callee_name(t), "argi": i,
                                "arg_ty": ty, "node": t})
        elif t.get("k") == "drop":
            pass
    return out
