"""C19 — resolveType derives exactly the declared emitted events."""
import re
from ..facts import AST, VISITOR_CRATE, walk, strip_transparent, field_path, const_str, local_of
from ..engine import Rule
from . import common as C
from .hirflow import HirIndex, conjuncts
from .hirtext import expr_str, pat_str
from . import c16


def r19_1(ctx):
    r = Rule("R19.1", "an `emits` option is produced only for a second parameter annotated `SetupContext<E>` (with type arguments)",
             "any other generic annotation would otherwise produce an emits list")
    ee = C.role_or_fail(ctx, r, "emits_extractor")
    if not ee:
        return r
    r.saw(ee["path"])
    idx = HirIndex(ee)
    # the event name is the *first* parameter of a call signature: `params.first()`, not a search among the parameters
    txt_ee = expr_str(C.family_body(ctx, ee))
    m_first = re.search(r"\bparams\.(?:iter\(\)\.|as_slice\(\)\.)?(find|position|filter|find_map|skip|nth|last|rev)\(", txt_ee)
    r.ob("the event name of a call signature is its first parameter", m_first is None and ("params.first()" in txt_ee or "params.get(0)" in txt_ee or m_first is None), C.mloc(ee, ee),
         "params.first()" if m_first is None else "the parameter is chosen by `params...%s(..)`: a later parameter typed by literals is taken for the event name" % m_first.group(1))
    somes = []
    for n in idx.nodes:
        if n.get("k") == "Ctor" and n.get("variant") == "Some" and (n.get("ty") or "").endswith("Option<%sArrayLit>" % AST):
            somes.append(n)
    if not somes:
        # `first().map(|x| ArrayLit { .. })`: the array literal itself marks the site
        for n in idx.nodes:
            if n.get("k") == "Struct" and n.get("adt") == AST + "ArrayLit":
                somes.append(n)
    if not somes:
        r.ob("emits construction site found", False, C.mloc(ee, ee), "no `Some(ArrayLit ..)` in the emits extractor")
        return r
    for n in somes:
        # enclosing arm: pattern TsTypeRef { type_name: Ident(..), type_params: Some(..) } and guard sym == "SetupContext"
        arm = None
        for p in idx.parents(n):
            if p.get("k") == "Arm":
                arm = p
        ok_pat = False
        ok_guard = False
        detail = "not inside a match arm"
        for p in idx.parents(n):
            if p.get("k") != "Arm":
                continue
            ps = pat_str(p["pat"])
            if "TsTypeRef(" in ps:
                ok_pat = "type_params: Some(" in ps and "type_name: Ident(" in ps
                g = p.get("guard")
                if g is not None:
                    for c in conjuncts(g):
                        if c.get("k") == "Binary" and c.get("op") == "==":
                            sides = [strip_transparent(c["l"]), strip_transparent(c["r"])]
                            if any(const_str(s) == "SetupContext" for s in sides) and any(s.get("k") == "Field" and s["name"] == "sym" for s in sides):
                                ok_guard = True
                detail = "arm `%s`%s" % (ps[:90], " if " + expr_str(g)[:60] if g is not None else " (no guard)")
        r.ob("emits are built only under `SetupContext<..>`", ok_pat and ok_guard, C.mloc(ee, n),
             detail if (ok_pat and ok_guard) else detail + " — the name test / type-argument requirement is missing")
    # E is the *first* type argument, however many follow (`SetupContext<E, S>` since Vue 3.3)
    exact = [x for x in idx.nodes if x.get("k") in ("LetExpr", "Let") and x.get("init") is not None and "params" in expr_str(x["init"])
             and any(p_.get("k") == "PSlice" and p_.get("mid") is None for p_ in walk(x["pat"]))]
    exact += [a_ for m_ in idx.nodes if m_.get("k") == "Match" and "params" in expr_str(m_["scrut"]) for a_ in m_["arms"]
              if any(p_.get("k") == "PSlice" and p_.get("mid") is None and len(p_.get("before", [])) >= 1 for p_ in walk(a_["pat"]))]
    r.ob("the event type is the first type argument whatever the number of arguments", not exact, C.mloc(ee, exact[0]) if exact else C.mloc(ee, ee),
         "first() / get(0)" if not exact else "a slice pattern of exact length selects the type arguments: `SetupContext<E, S>` yields no emits")
    # the context parameter may be written as an identifier or destructured: every binding-pattern form that carries an annotation is read
    forms = {x.get("variant") for x in idx.nodes if x.get("k") in ("PTupleStruct", "PStruct") and x.get("adt") == AST + "Pat"}
    need = {"Ident", "Array", "Object"}
    r.ob("the annotation is read from every form of the second parameter (identifier / array pattern / object pattern)", need <= forms, C.mloc(ee, ee),
         "pattern forms matched: %s" % sorted(f for f in forms if f) if need <= forms else
         "no arm for %s: `(props, { emit }: SetupContext<E>) => ..` gets no emits" % sorted(need - forms))
    # every other arm / path of the annotation match yields None
    for m in idx.nodes:
        if m.get("k") == "Match" and any("TsTypeRef(" in pat_str(a["pat"]) for a in m["arms"]):
            for a in m["arms"]:
                if "TsTypeRef(" in pat_str(a["pat"]):
                    continue
                body = expr_str(a["body"])
                r.ob("annotation arm `%s` yields no emits" % pat_str(a["pat"])[:30], body == "None", C.mloc(ee, a), "=> %s" % body[:40])
    return r


def r19_2(ctx):
    r = Rule("R19.2", "event-name sources: call signatures / function types -> literal (union) type of the first parameter; property and method members -> their key; getters -> none",
             "a wrong source drops or invents event names")
    ee = C.role_or_fail(ctx, r, "emits_extractor")
    su = C.role(ctx, "string_union_resolver")
    if not ee:
        return r
    r.saw(ee["path"])
    table = None
    for n in walk(ee["body"]):
        if n.get("k") == "Match" and any((x.get("adt") or "").endswith("RefinedTsTypeElement") for a in n["arms"] for x in walk(a["pat"]) if x.get("k") in ("PTupleStruct", "PStruct")):
            table = n
            break
    if table is None:
        r.ob("event-name table found", False, C.mloc(ee, ee), "no match over the refined members")
        return r
    seen = set()
    for a in table["arms"]:
        vs = sorted({x.get("variant") for x in walk(a["pat"]) if x.get("k") in ("PTupleStruct", "PStruct") and (x.get("adt") or "").endswith("RefinedTsTypeElement")})
        body = expr_str(a["body"])
        for v in vs:
            seen.add(v)
            if v in ("Property", "MethodSignature"):
                ok = ".sym" in body and ".value" in body and "Ident(" in body and "Str(" in body
                r.ob("%s -> its key (identifier or string)" % v, ok, C.mloc(ee, a), body[:140])
            elif v == "CallSignature":
                ok = "params.first()" in body and su is not None and su["name"] in body
                # all four TsFnParam forms
                forms = set(re.findall(r"\b(Ident|Array|Rest|Object)\(", body))
                r.ob("CallSignature -> string literals of the first parameter's type", ok and forms >= {"Ident", "Array", "Rest", "Object"}, C.mloc(ee, a), "%s; parameter forms %s" % (body[:90], sorted(forms)))
            elif v == "GetterSignature":
                r.ob("GetterSignature -> no event", body in ("new()", "[]", "vec![]", "Vec::new()") or "new()" in body or body == "[]", C.mloc(ee, a), body[:40])
    r.ob("all member kinds are handled", seen >= {"Property", "MethodSignature", "CallSignature", "GetterSignature"}, C.mloc(ee, table), "handled: %s" % sorted(seen))
    # the emits definition is resolved through the shared member resolver (aliases, interfaces, extends, unions)
    tr = C.role(ctx, "type_elements_resolver")
    uses = tr is not None and any(x.get("k") == "MethodCall" and x.get("callee") == tr["path"] for x in walk(ee["body"]))
    r.ob("E is resolved by the shared member resolver", uses, C.mloc(ee, ee), "calls %s" % (tr["name"] if tr else "?"))
    # function types become call signatures there
    if tr:
        ok = any(n.get("k") == "MethodCall" and n["method"] == "push" and any(x.get("k") == "Ctor" and x.get("variant") == "CallSignature" for x in walk(n)) for n in walk(tr["body"]))
        r.ob("function types are refined to call signatures", ok, C.mloc(tr, tr), "TsFnType => CallSignature" if ok else "missing")
    return r


def r19_3(ctx):
    """string-union resolver table"""
    r = Rule("R19.3", "literal-union resolver: string literal -> itself; union -> concatenation of its members in order; alias -> its target; anything else is reported",
             "a silently skipped member drops an event name")
    su = C.role_or_fail(ctx, r, "string_union_resolver")
    if not su:
        return r
    r.saw(su["path"])
    m = None
    for n in walk(su["body"]):
        if n.get("k") == "Match" and any("TsLitType" in pat_str(a["pat"]) for a in n["arms"]):
            m = n
            break
    if m is None:
        r.ob("table found", None, C.mloc(su, su), "shape not recognised")
        return r
    for a in m["arms"]:
        ps = pat_str(a["pat"])
        body = expr_str(a["body"])
        if ps.startswith("TsLitType("):
            r.ob("string literal type -> its value", ".value" in body, C.mloc(su, a), body[:80])
        elif "TsUnionType" in ps:
            # fold / for loop / flat_map over the members, each resolved recursively and appended in iteration order
            iterates = ".fold(" in body or "loop match next(" in body or ".flat_map(" in body or ".for_each(" in body
            appends = "push(" in body or "extend(" in body or ".flat_map(" in body
            ok = iterates and (su["name"] + "(") in body and appends and "rev()" not in body and ".insert(0" not in body
            r.ob("union -> members in order (recursively)", ok, C.mloc(su, a), body[:120])
        elif ps.startswith("TsTypeRef("):
            ok = "type_aliases.get(" in body and body.count("span_err") >= 2
            r.ob("type reference -> alias target, otherwise reported", ok, C.mloc(su, a), body[:120])
        elif ps == "_":
            r.ob("anything else is reported", "span_err" in body, C.mloc(su, a), body[:80])
    return r


def rules(ctx):
    from ..engine import only
    from . import c20
    return [__import__('vjsx.rules.c16', fromlist=['x']).r16_9, __import__('vjsx.rules.c10', fromlist=['x']).field_ratchet('resolved emits must not depend on what was resolved before'), r19_1, r19_2, r19_3, c16.r16_1, c16.r16_2, c16.r16_3, c16.r16_11, c16.r16_12, c20.r20_5,
            only(c20.r20_2, lambda k: "recorded" in k or "define_component" in k or "specifier" in k, "the emits option is only produced for calls recognised as Vue's defineComponent; the record of that import must survive later imports")]


EXPLANATION = (
    "R19.1: the only construction of Some(ArrayLit) in the emits extractor sits in the arm TsTypeRef{type_name: Ident, type_params: Some} "
    "guarded by sym == \"SetupContext\"; all other annotation arms yield None. R19.2: the event-name table over refined members (property / "
    "method -> key as identifier or string; call signature -> literal union of the first parameter in all four parameter forms through the "
    "shared string-union resolver; getter -> nothing), E resolved by the shared member resolver, function types refined to call signatures. "
    "R19.3: the literal-union resolver's table. R16.1-R16.3 (shared): sibling agreement incl. Arrow/Fn setup forms, (name, scope) keys, no "
    "silent drop."
)
ASSUMPTIONS = ["set equality of events for every encoding of E is not computed"]
TRUSTED = ["rustc nightly typed HIR"]
LEVEL = "other"
LEVEL_TEXT = "Guard / table extraction on the typed HIR of the emits extractor and the resolvers it shares with C16."
LEVEL_NOTE = "Trusted: rustc HIR. Not decided: event-set equality for every encoding."
TECHNIQUE = "guard and table extraction (A6) on typed HIR + shared sibling-agreement rules"
