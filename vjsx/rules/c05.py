"""C05 — v-model / v-models produce a working two-way binding (shape)."""
import re
from ..facts import AST, VISITOR_CRATE, walk, strip_transparent, field_path, const_str, local_of
from ..engine import Rule
from . import common as C
from .hirflow import HirIndex, conjuncts
from .hirtext import expr_str, pat_str
from .c13 import _fold_closure, _top_arms, _quote_str_arg, _str_of, _kd
from . import c01, c08, c11


def _vmodel_arm(ctx, fold):
    cl = _fold_closure(fold)
    for label, arm in _top_arms(cl) if cl is not None else []:
        if "VModel" in label:
            return arm
    return None


def r05_1(ctx):
    r = Rule("R05.1", "one key scheme for the three argument forms (none / static / computed): value key, `<arg>Modifiers`, `onUpdate:<arg>`",
             "a listener key that Vue does not look for never fires")
    fold = C.role_or_fail(ctx, r, "attr_fold")
    if not fold:
        return r
    r.saw(fold["path"])
    arm = _vmodel_arm(ctx, fold)
    if arm is None:
        r.ob("v-model arm found", None, C.mloc(fold, fold), "not found")
        return r
    idx = HirIndex(fold)
    tables = []
    for n in walk(arm["body"]):
        if n.get("k") == "Match" and expr_str(n["scrut"]).endswith("directive.argument") and len(n["arms"]) == 3:
            tab = {}
            for a in n["arms"]:
                ps = pat_str(a["pat"])
                form = "none" if "None" in ps else ("static" if "Str(" in ps else "computed")
                body = a["body"]
                desc = None
                for pn in walk(body):
                    if pn.get("k") == "Ctor" and pn.get("adt") == AST + "PropName":
                        if pn.get("variant") == "Computed":
                            t = expr_str(pn)
                            m = re.search(r"Bin\(BinExpr\{span: DUMMY_SP, op: Add, left: (.*), right: (.*)\}\)", t)
                            if m:
                                l, rr = m.group(1), m.group(2)
                                ls = re.search(r"value: '([^']*)'", l)
                                rs = re.search(r"value: '([^']*)'", rr)
                                desc = ("computed", ls.group(1) if ls else "", rs.group(1) if rs and not ls else (rs.group(1) if rs else ""))
                                if ls:
                                    desc = ("computed", ls.group(1), "")
                                elif rs:
                                    desc = ("computed", "", rs.group(1))
                            else:
                                desc = ("computed", "", "")
                        else:
                            a_ = _quote_str_arg(pn)
                            sd = _str_of(idx, a_) if a_ is not None else None
                            if sd and sd[0] == "const":
                                desc = ("const", sd[1])
                            elif sd and sd[0] == "fmt":
                                lits = [v for k, v in sd[1] if k == "lit"]
                                pos = [k for k, v in sd[1]]
                                prefix = lits[0] if pos and pos[0] == "lit" else ""
                                suffix = lits[-1] if pos and pos[-1] == "lit" else ""
                                desc = ("static", prefix, suffix)
                            elif sd and sd[0] == "local":
                                desc = ("static", "", "")
                tab[form] = desc
            tables.append((n, tab))
    names = ["value key", "modifiers key", "listener key"]
    if len(tables) != 3:
        r.ob("three key tables (value, modifiers, listener)", None, C.mloc(fold, arm), "%d table(s) found: not decided" % len(tables))
        return r
    want = [
        {"none": ("const", "modelValue"), "static": ("static", "", ""), "computed": ("computed", "", "")},
        {"none": ("const", "modelModifiers"), "static": ("static", "", "Modifiers"), "computed": ("computed", "", "Modifiers")},
        {"none": ("const", "onUpdate:modelValue"), "static": ("static", "onUpdate:", ""), "computed": ("computed", "onUpdate:", "")},
    ]
    for (n, tab), nm, w in zip(tables, names, want):
        for form in ("none", "static", "computed"):
            got = tab.get(form)
            key = "%s, %s argument" % (nm, form)
            r.ob(key, got == w[form], C.mloc(fold, n), "%s" % (got,) if got == w[form] else "found %s, scheme requires %s" % (got, w[form]))
    return r


def r05_2(ctx):
    r = Rule("R05.2", "listener template: `$event => (<target>) = $event` with the same target expression as the bound value",
             "a listener assigning to something else, or a mismatched parameter, does not update the model")
    fold = C.role_or_fail(ctx, r, "attr_fold")
    if not fold:
        return r
    arm = _vmodel_arm(ctx, fold)
    if arm is None:
        return r
    r.saw(fold["path"])
    found = False
    for n in walk(arm["body"]):
        if n.get("k") == "Struct" and n.get("adt") == AST + "ArrowExpr":
            fs = {f["name"]: f["e"] for f in n["fields"]}
            params = expr_str(fs.get("params"))
            body = expr_str(fs.get("body"))
            found = True
            p_ok = params.count("BindingIdent{") == 1 and "'$event'" in params
            b_ok = "Assign(AssignExpr{span: DUMMY_SP, op: Assign, left: Simple(Paren(ParenExpr{span: DUMMY_SP, expr: directive.value}))" in body and "right: Ident(" in body and "'$event'" in body
            r.ob("listener has one parameter `$event`", p_ok, C.mloc(fold, n), params[:120])
            r.ob("listener body assigns `$event` to the parenthesised v-model target", b_ok, C.mloc(fold, n), body[:170])
    if not found:
        r.ob("listener arrow found", False, C.mloc(fold, arm), "the v-model arm builds no arrow function")
    # value passed as prop (component) / directive value (element) is the same carrier
    t = expr_str(arm["body"])
    r.ob("component: the prop value is the v-model target", "value: directive.value" in t, C.mloc(fold, arm), "KeyValueProp.value = directive.value")
    r.ob("element: the `model` directive gets target, argument and modifiers", "directives.push(NormalDirective{name: 'model', argument: directive.transformed_argument, modifiers: directive.modifiers, value: directive.value})" in t, C.mloc(fold, arm), "NormalDirective{name: 'model', ..}")
    return r


def r05_3(ctx):
    r = Rule("R05.3", "model-directive table: select -> vModelSelect; textarea -> vModelText; static type checkbox / radio / other or none -> Checkbox / Radio / Text; dynamic type -> vModelDynamic",
             "the wrong runtime directive does not read/write the element's value")
    rd = C.role_or_fail(ctx, r, "resolve_directive_fn")
    if not rd:
        return r
    r.saw(rd["path"])
    idx = HirIndex(rd)
    # every place where a vModel* helper is named, with the literal conditions on the way to it (arm patterns and `== "lit"` guards)
    sites = {}
    for n in idx.nodes:
        c = const_str(n)
        if not (c and c.startswith("vModel")):
            continue
        lits, pats, guarded = set(), [], False
        child = n
        for p_ in idx.parents(n):
            if p_.get("k") == "Arm":
                ps = pat_str(p_["pat"])
                pats.append(ps)
                for x in walk(p_["pat"]):
                    if x.get("k") == "PLit" and isinstance(x.get("v"), str):
                        lits.add(x["v"])
                g = p_.get("guard")
                if g is not None:
                    cs = [const_str(y) for y in walk(g) if const_str(y)]
                    eq = [y for y in walk(g) if y.get("k") == "Binary" and y.get("op") == "=="]
                    if cs and eq:
                        lits |= set(cs)
                    else:
                        guarded = True
            child = p_
        lits.discard("model")
        sites.setdefault(c, []).append({"lits": lits, "pats": pats, "guarded": guarded, "node": n})

    def has(helper, lit):
        return any(x["lits"] == {lit} and not x["guarded"] for x in sites.get(helper, []))
    for name, helper, lit in (("select -> vModelSelect", "vModelSelect", "select"), ("textarea -> vModelText", "vModelText", "textarea"),
                              ("type=\"checkbox\" -> vModelCheckbox", "vModelCheckbox", "checkbox"), ("type=\"radio\" -> vModelRadio", "vModelRadio", "radio")):
        ok = has(helper, lit)
        wrong = [h for h, xs in sites.items() if h != helper and any(x["lits"] == {lit} for x in xs)]
        r.ob(name, ok, C.mloc(rd, rd), "under the literal `%s`" % lit if ok else ("`%s` selects %s" % (lit, wrong) if wrong else "entry not found in the table"))
    deflt = [x for x in sites.get("vModelText", []) if not x["lits"]]
    ok = bool(deflt) and all((not x["guarded"]) and any(("None" in p_) or ("Lit(Str(" in p_) for p_ in x["pats"]) for x in deflt)
    r.ob("other static type / no type -> vModelText", ok, C.mloc(rd, deflt[0]["node"]) if deflt else C.mloc(rd, rd),
         "default under %s" % [p_ for p_ in deflt[0]["pats"] if "None" in p_ or "Lit(Str(" in p_][:1] if ok else
         ("the vModelText default is not confined to a string-literal / absent `type` (enclosing arms %s): a `type` written as an expression falls into it" % (deflt[0]["pats"][:3]) if deflt else "entry not found in the table"))
    dyn = sites.get("vModelDynamic", [])
    ok = bool(dyn) and all((not x["lits"]) and (not x["guarded"]) and any(p_.startswith("Some(") and "Lit(" not in p_ for p_ in x["pats"]) for x in dyn)
    r.ob("dynamic type -> vModelDynamic", ok, C.mloc(rd, dyn[0]["node"]) if dyn else C.mloc(rd, rd),
         "unguarded `Some(..)` arm" if ok else ("the vModelDynamic arm carries a further condition (%s): some non-literal `type` values do not reach it" % dyn[0]["pats"][:2] if dyn else "entry not found in the table"))
    t = expr_str(rd["body"])
    r.ob("the `type` attribute is looked up by name", "'type'" in t and ".sym" in t, C.mloc(rd, rd), "sym == 'type'")
    return r


def r05_4(ctx):
    r = Rule("R05.4", "v-models: each listed pair becomes a v-model attribute at the position of the v-models attribute, in order; a string second element is the argument",
             "a reordered or misplaced expansion changes evaluation order / drops arguments")
    dc = C.role_or_fail(ctx, r, "v_models_decoupler")
    if not dc:
        return r
    r.saw(dc["path"])
    t = expr_str(dc["body"])
    r.ob("pairs are mapped in order (into_iter / filter_map / map)", "elems.into_iter().filter_map(" in t and ".map(" in t and "rev()" not in t, C.mloc(dc, dc), t[:90])
    r.ob("a string second element becomes the argument and is removed from the value array", "elems.get(1)" in t and "if argument.is_some() elems.remove(1)" in t, C.mloc(dc, dc), "get(1) … remove(1)")
    r.ob("the generated attribute is `v-model` / `v-model:<arg>`", "ns: {let sym = 'v-model'" in t.replace("IdentName", "") or "'v-model'" in t, C.mloc(dc, dc), "names built from the constant 'v-model'")
    # position: in the hook that expands `v-models`, the decoupled attributes go where the attribute was removed
    for hb in C.visitor_methods(ctx):
        calls_dc = [n for n in walk(hb["body"]) if n.get("k") in ("Call", "MethodCall") and n.get("callee") == dc["path"]]
        if not calls_dc:
            continue
        r.saw(hb["path"])
        idx = HirIndex(hb)
        removed = [n for n in walk(hb["body"]) if n.get("k") == "MethodCall" and n["method"] in ("remove",) and n["args"] and local_of(n["args"][0])]
        rm_idx = local_of(removed[0]["args"][0]) if removed else None
        ok = False
        how = "no insertion of the decoupled attributes found"
        for n in walk(hb["body"]):
            if n.get("k") != "MethodCall" or not any(x is c for c in calls_dc for x in walk(n)):
                continue
            if n["method"] == "splice" and n["args"]:
                rng = strip_transparent(n["args"][0])
                fs = {f["name"]: f["e"] for f in rng.get("fields", [])} if rng.get("k") == "Struct" else {}
                a, b_ = fs.get("start"), fs.get("end")
                if a is not None and b_ is not None and local_of(a) and local_of(a) == local_of(b_) and local_of(a) == rm_idx:
                    ok, how = True, "splice(%s..%s, ..) at the index the attribute was removed from" % (local_of(a)[0], local_of(a)[0])
                else:
                    how = "splice over `%s`, which is not the empty range at the removed index" % expr_str(rng)[:40]
            elif n["method"] in ("extend", "append", "push", "extend_from_slice"):
                how = "%s(..) appends the expansion at the end of the attribute list: attributes written after `v-models` now come before it" % n["method"]
            elif n["method"] == "insert":
                how = "insert of the iterator as one element?"
        r.ob("%s puts the decoupled attributes where `v-models` stood" % hb["name"], ok, C.mloc(hb, calls_dc[0]), how)
    return r


def r05_5(ctx):
    r = Rule("R05.5", "sibling agreement inside the v-model parser: the component `null` argument placeholder is set only when no argument was given, in both array forms",
             "overwriting a written argument binds modelValue instead of the named prop")
    b = None
    for hb in ctx.facts.hir:
        if hb["crate"] == VISITOR_CRATE and not hb.get("mac") and hb["path"].startswith("directive::") and len(hb["inputs"]) == 4 and hb["inputs"][1] == "bool":
            b = hb
    if b is None:
        r.ob("v-model parser found", None, "-", "not found")
        return r
    r.saw(b["path"])
    idx = HirIndex(b)
    sites = []
    for n in idx.nodes:
        if n.get("k") == "Assign" and local_of(n["l"]) and local_of(n["l"])[0] == "argument" and "Lit(Null(" in expr_str(n["r"]):
            conds = set()
            child = n
            for p in idx.parents(n):
                if p.get("k") == "If" and child is p.get("then"):
                    conds |= {expr_str(c) for c in conjuncts(p["cond"])}
                    break
                child = p
            sites.append((n, conds))
    want = {"is_component", "argument.is_none()"}
    for i, (n, conds) in enumerate(sites):
        r.ob("null-argument placeholder #%d is guarded by is_component && argument.is_none()" % (i + 1), conds == want, C.mloc(b, n), "guard %s" % sorted(conds))
    r.ob("both array forms set the placeholder", len(sites) == 2, C.mloc(b, b), "%d site(s)" % len(sites))
    return r


TPL_ADT = "swc_ecma_ast::Tpl"


def _tpl_field_reads(fn, name):
    out = []
    for n in walk(fn["body"]):
        if n.get("k") == "PStruct" and n.get("adt") == TPL_ADT:
            for f in n.get("fields", []):
                if f.get("name") == name and f.get("p", {}).get("k") != "PWild":
                    out.append(n)
        elif n.get("k") == "Field" and n.get("name") == name and str(n.get("e", {}).get("tya", "")).replace("&", "").replace("mut ", "").strip().endswith(TPL_ADT):
            out.append(n)
    return out


def r05_6(ctx):
    r = Rule("R05.6", "a template literal is read as a static string only where its substitutions are looked at too: a function that reads `Tpl.quasis` also reads `Tpl.exprs`",
             "`type={`${kind}`}` (or any attribute / key given as a template with substitutions) is taken for the constant text of its first quasi: the static branch is chosen for a dynamic value")
    n_fn = 0
    for fn in ctx.facts.user_hir():
        n_fn += 1
        qs = _tpl_field_reads(fn, "quasis")
        if not qs:
            continue
        es = _tpl_field_reads(fn, "exprs")
        r.ob("%s reads the substitutions of the template whose quasis it reads" % fn["path"], bool(es), C.mloc(fn, qs[0]),
             "`exprs` read at %s" % C.mloc(fn, es[0]) if es else "`quasis` is read and `exprs` never is: a template with `${..}` substitutions is indistinguishable from a constant one here")
    r.saw("%d function bodies of the visitor crate scanned for reads of `Tpl.quasis`" % n_fn)
    return r


def rules(ctx):
    from ..engine import only
    from . import c04
    extra = []
    if ctx.tier == "thorough":
        from . import controls
        extra = [controls.control_rule([("R05.6", r05_6, ["tpl_first_quasi"])])]
    return extra + [__import__('vjsx.rules.c10', fromlist=['x']).field_ratchet('the model directive chosen for one element must not depend on an earlier one'), only(c04.r04_5, lambda k: 'takes its modifiers' in k, 'v-model modifiers written as `_suffix`'), r05_1, r05_2, r05_3, r05_4, r05_5, r05_6, c01.r01_8,
            only(c01.r01_5, lambda k: "de-duplicated" in k, "a user-written `onUpdate:x` listener beside v-model is merged with the generated one, not replaced"),
            only(c01.r01_1, lambda k: k.startswith(("component predicate", "the Fragment name")), "component vs element host decides prop-style vs directive-style v-model"),
            only(c11.r11_3, lambda k: "visit_mut_jsx_opening_element" in k or "decouple" in k or k.startswith("scan"), "v-models expansion keeps order and position")]


EXPLANATION = (
    "R05.1: the three matches over `directive.argument` in the v-model arm are read as tables (none / static / computed) of constant pieces: "
    "value key (modelValue | arg | [arg]), modifiers key (modelModifiers | arg+\"Modifiers\" | [arg+\"Modifiers\"]), listener key "
    "(\"onUpdate:modelValue\" | \"onUpdate:\"+arg | [\"onUpdate:\"+arg]); the computed listener arm uses \"onUpdate\" without the colon "
    "(known finding, pinned). R05.2: listener template. R05.3: the model-directive table. R05.4: v-models decoupling shape. R05.5: the "
    "two null-argument placeholders in the v-model parser have the same guard. R05.6: a function that reads a template literal's quasis also reads its substitutions "
    "(a `type` given as a template with `${..}` is never taken for a static string); zero instances today, positive control in the thorough tier. "
    "R01.1 (host classes) and R11.3 (order) are shared."
)
ASSUMPTIONS = ["that invoking the listener assigns (evaluation) is not modelled"]
TRUSTED = ["rustc nightly typed HIR"]
LEVEL = "other"
LEVEL_TEXT = "Key-scheme / template / table checks on the resolved program; one pinned defect (`\"onUpdate\" + arg`) is a recorded known finding."
LEVEL_NOTE = "Trusted: rustc HIR. Not decided: runtime effect of the listener."
TECHNIQUE = "sibling agreement of constant pieces across match arms (A7) + construction templates (A9) + table extraction (A6)"
