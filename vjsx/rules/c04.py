"""C04 — directives reach the runtime with the right definition, value, arg and modifiers (shape)."""
import re
from ..facts import AST, VISITOR_CRATE, walk, strip_transparent, field_path, const_str, local_of
from ..engine import Rule
from ..cfg import calls, callee_name
from . import common as C
from .hirflow import HirIndex, conjuncts
from .hirtext import expr_str, pat_str
from .c13 import _fold_closure, _top_arms
from . import c07, c11


def r04_1(ctx):
    r = Rule("R04.1", "directive recogniser: attribute (or namespace) name starts with `v-` or `v` + upper-case letter",
             "a wider or narrower pattern turns ordinary attributes into directives or vice versa")
    dp = C.role_or_fail(ctx, r, "directive_pred")
    if not dp:
        return r
    r.saw(dp["path"])
    t = expr_str(dp["body"])
    ok = "match name.as_bytes() {[118, 45 | 65..90, ..] => True | _ => False}" in t
    r.ob("recogniser pattern is [b'v', b'-' | b'A'..=b'Z', ..]", ok, C.mloc(dp, dp), t[-90:])
    ok2 = "Ident(ident) => ident.sym" in t and "JSXNamespacedName(JSXNamespacedName(ns: ns)) => ns.sym" in t
    r.ob("the name tested is the attribute name, or the namespace of `v-x:arg`", ok2, C.mloc(dp, dp), t[:120])
    return r


def r04_2(ctx):
    r = Rule("R04.2", "name normalisation: exactly one `v` and one optional `-` are removed and only the first letter is lower-cased; for a plain name every `_suffix` is a modifier, the argument comes only from `v-x:arg`",
             "lower-casing the whole name or greedy prefix stripping resolves a different directive")
    dir_ = C.role_or_fail(ctx, r, "directive_parser")
    if not dir_:
        return r
    r.saw(dir_["path"])
    # zero-count: whole-string case folding in the directive module
    n = 0
    for mb in ctx.facts.mir:
        if mb["crate"] == VISITOR_CRATE and mb["path"].startswith("directive::"):
            for i, t in calls(mb):
                n += 1
                name = callee_name(t)
                if re.search(r"str::<impl str>::(to_ascii_lowercase|to_lowercase|to_ascii_uppercase|to_uppercase|make_ascii_lowercase)$", name):
                    r.ob("%s folds the case of a whole string (%s)" % (mb["path"], name.split("::")[-1]), False, C.mloc(mb, t), "`vFooBar` must resolve `fooBar`, not `foobar`")
    r.ob("no whole-string case folding in the directive parser", True, "-", "%d calls scanned" % n)
    # the head match: plain vs namespaced
    head = None
    for node in walk(dir_["body"]):
        if node.get("k") == "Match" and (strip_transparent(node["scrut"]).get("ty") or "").endswith("JSXAttrName"):
            head = node
            break
    if head is None:
        r.ob("name/argument/suffix head found", None, C.mloc(dir_, dir_), "not found")
        return r
    for a in head["arms"]:
        ps = pat_str(a["pat"])
        body = expr_str(a["body"])
        strips = re.findall(r"\.(trim_start_matches|strip_prefix|trim_matches)\(([^)]*)\)", body)
        ok_strip = strips == [("trim_start_matches", "'v'"), ("trim_start_matches", "'-'")] or strips == [("strip_prefix", "'v'"), ("strip_prefix", "'-'")]
        r.ob("%s: prefix removal is `v` then `-`" % ps.split("(")[0], ok_strip, C.mloc(dir_, a), "%s" % strips if strips else body[:100])
        tup = None
        for x in walk(a["body"]):
            if x.get("k") == "Tup" and len(x["items"]) == 3:
                tup = x
        if tup is None:
            r.ob("%s: (name, argument, suffixes) tuple" % ps.split("(")[0], None, C.mloc(dir_, a), "not found")
            continue
        arg = expr_str(tup["items"][1])
        name_e = expr_str(tup["items"][0])
        if ps.startswith("Ident("):
            r.ob("plain name: no `_suffix` becomes the argument", arg == "None", C.mloc(dir_, tup), "argument = %s" % arg[:60])
            r.ob("plain name: the directive name is the part before the first `_`", "splitted.next()" in name_e, C.mloc(dir_, tup), name_e[:80])
        else:
            r.ob("namespaced name: the argument is the part of the local name before the first `_`", arg.startswith("Some(splitted.next()"), C.mloc(dir_, tup), "argument = %s" % arg[:60])
            r.ob("namespaced name: the directive name comes from the namespace", "ns.sym" in name_e, C.mloc(dir_, tup), name_e[:80])
        r.ob("%s: only the first letter is lower-cased" % ps.split("(")[0], name_e.startswith("lower_first(") or "to_ascii_lowercase" not in name_e, C.mloc(dir_, tup), name_e[:80])
    # the name that reaches the directive is the one this head produced: nothing re-derives it on the way (camel-casing, trimming, ..)
    from .hirflow import HirIndex
    idx_d = HirIndex(dir_)
    k_n = 0
    for node in walk(dir_["body"]):
        if node.get("k") == "Struct" and (node.get("adt") or "") == "directive::NormalDirective":
            ne = {f["name"]: f["e"] for f in node["fields"]}.get("name")
            x_ = strip_transparent(ne) if ne is not None else None
            while x_ is not None and x_.get("k") in ("Call", "MethodCall") and re.search(r"(::from|::into|::to_string|::as_str|::as_ref|::to_owned)$", x_.get("callee") or ""):
                x_ = strip_transparent(x_["recv"] if x_.get("k") == "MethodCall" else (x_["args"][0] if x_.get("args") else None)) if (x_.get("k") == "MethodCall" or x_.get("args")) else None
            lo = local_of(x_) if x_ is not None else None
            bd = idx_d.binding.get(lo[1]) if lo else None
            k_n += 1
            from_head = bd is not None and bd.get("kind") == "let" and bd.get("init") is not None and strip_transparent(bd["init"]) is head
            r.ob("the directive's name is the one the head match produced" + ("" if k_n == 1 else " #%d" % k_n), from_head, C.mloc(dir_, node),
                 "bound by the (name, argument, suffixes) destructuring" if from_head else
                 "`name` is rebound before it reaches the directive (`%s`): the resolved name is no longer the written one" % (expr_str(bd["init"])[:70] if bd and bd.get("init") is not None else "?"))
    # lower_first itself
    for b in ctx.facts.hir:
        if b["crate"] == VISITOR_CRATE and b["path"].startswith("directive::") and b["inputs"] == ["&str"] and b["output"] == "alloc::string::String":
            t = expr_str(b["body"])
            r.saw(b["path"])
            ok = "chars.next()" in t and "first.to_ascii_lowercase()" in t and re.search(r"\+ chars\b", t) is not None
            r.ob("the first-letter helper lower-cases one char and keeps the rest", True if ok else None, C.mloc(b, b), t[:140] if ok else "shape not recognised (not decided): " + t[:120])
    return r


def r04_4(ctx):
    r = Rule("R04.4", "directive dispatch: html / text -> innerHTML / textContent props; model, slots -> their parsers; show -> vShow; any other name -> resolveDirective(name)",
             "a wrong table entry binds the wrong directive")
    dir_ = C.role_or_fail(ctx, r, "directive_parser")
    rd = C.role_or_fail(ctx, r, "resolve_directive_fn")
    fold = C.role(ctx, "attr_fold")
    if dir_:
        r.saw(dir_["path"])
        for n in walk(dir_["body"]):
            if n.get("k") == "Match" and any(pat_str(a["pat"]) == "'html'" for a in n["arms"]):
                got = {pat_str(a["pat"]): expr_str(a["body"]) for a in n["arms"]}
                for k, frag in (("'html'", "Directive"), ("'text'", "Directive"), ("'model'", "parse_v_model_directive("), ("'slots'", "parse_v_slots_directive(")):
                    outty = None
                    r.ob("parser dispatch %s" % k, k in got and got[k].startswith("ret "), C.mloc(dir_, n), got.get(k, "missing")[:70])
                r.ob("parser dispatch: other names fall through to the generic directive", got.get("_") in ("{}", "()"), C.mloc(dir_, n), got.get("_", "missing"))
    if fold:
        cl = _fold_closure(fold)
        for label, arm in _top_arms(cl) if cl is not None else []:
            t = expr_str(arm["body"])
            if label.startswith("directive Html"):
                r.ob("v-html sets the innerHTML prop", "'innerHTML'" in t and "value: expr" in t, C.mloc(fold, arm), t[:90])
            if label.startswith("directive Text"):
                r.ob("v-text sets the textContent prop", "'textContent'" in t and "value: expr" in t, C.mloc(fold, arm), t[:90])
            if label.startswith("directive Normal"):
                r.ob("a runtime directive only adds a binding (props and children untouched)", t == "directives.push(directive)", C.mloc(fold, arm), t[:80])
            if label.startswith("directive Slots"):
                r.ob("v-slots only sets the slots carrier", t == "slots = expr", C.mloc(fold, arm), t[:60])
    if rd:
        r.saw(rd["path"])
        for n in walk(rd["body"]):
            if n.get("k") == "Match" and any(pat_str(a["pat"]) == "'show'" for a in n["arms"]):
                got = {pat_str(a["pat"]): expr_str(a["body"]) for a in n["arms"]}
                r.ob("show -> Vue's vShow", "import_from_vue('vShow')" in got.get("'show'", ""), C.mloc(rd, n), got.get("'show'", "")[:60])
                d = got.get("_", "")
                r.ob("other names -> resolveDirective(<name as written>)", "'resolveDirective'" in d and "value: directive_name" in d, C.mloc(rd, n), d[:120])
    return r


# the accepted spellings of "modifiers were written and are not empty" (None -> false in each) and of "the argument, or `void 0`"
NONEMPTY_MODS = re.compile(r"modifiers\.map\(\|(\w+)\| !\1\.is_empty\(\)\)\.(?:unwrap_or_default\(\)|unwrap_or\(False\))|modifiers\.is_some_and\(\|(\w+)\| !\2\.is_empty\(\)\)"
                           r"|modifiers\.map_or\(False, \|(\w+)\| !\3\.is_empty\(\)\)|match modifiers \{Some\((\w+)\) => !\4\.is_empty\(\) \| None(\(\))? => False\}"
                           r"|match modifiers \{None(\(\))? => False \| Some\((\w+)\) => !\7\.is_empty\(\)\}")
VOID_FILL = re.compile(r"argument\.or_else\(\|\| Some\(VOID0\)\)|argument\.or\(Some\(VOID0\)\)|Some\(argument\.unwrap_or_else\(\|\| VOID0\)\)|Some\(argument\.unwrap_or\(VOID0\)\)")


def _void0_texts(ctx):
    """canonical text of `void 0` as written inline, and of the call of the helper that builds it (if its body is exactly that)"""
    inline = re.compile(r"Unary\(UnaryExpr\{span: DUMMY_SP, op: Void, arg: Lit\(Num\(Number\{span: DUMMY_SP, value: '?0(\.0)?'?, raw: None\(?\)?\}\)\)\}\)")
    return inline


def r04_5(ctx):
    r = Rule("R04.5", "binding tuple [directive, value, arg?, modifiers?]: positional, so modifiers require an argument slot (`void 0` when none was written); modifiers are `{name: true}`",
             "modifiers pushed without an argument land in the argument slot")
    el = C.role_or_fail(ctx, r, "element_builder")
    dir_ = C.role_or_fail(ctx, r, "directive_parser")
    # the value slot is not optional: [directive, value, arg?, modifiers?] is positional, an argument can only follow a value
    nd = ctx.facts.struct_fields("NormalDirective") or []
    vty = next((f["ty"] for f in nd if f["name"] == "value"), None)
    if vty is not None:
        r.ob("a runtime directive always carries a value (the slot before the argument)", not vty.startswith("core::option::Option<"), "-",
             "NormalDirective.value: %s" % vty.split("::")[-1] if not vty.startswith("core::option::Option<") else
             "NormalDirective.value is optional (%s): without it the argument / modifiers move one slot to the left" % vty)
    if el:
        r.saw(el["path"])
        for n in walk(el["body"]):
            if n.get("k") == "Closure" and n.get("params") and (n["params"][0].get("ty") or "").endswith("NormalDirective"):
                t = expr_str(n["body"])
                i_dir = t.find("resolve_directive(")
                # (first mention of each part: pushed one by one under `if let Some(..)`, or chained `[d, v].chain(argument).chain(modifiers)`)
                i_val = t.find("directive.value")
                i_arg = t.find("directive.argument")
                i_mod = t.find("directive.modifiers")
                ok = 0 <= i_dir < i_val < i_arg < i_mod
                r.ob("element builder emits [directive, value, argument?, modifiers?] in this order", ok, C.mloc(el, n), "positions %s" % [i_dir, i_val, i_arg, i_mod])
    if dir_:
        r.saw(dir_["path"])
        # every construction of a directive struct with `modifiers` gives an argument whenever modifiers are non-empty
        for b in ctx.facts.hir:
            if b["crate"] != VISITOR_CRATE or not b["path"].startswith("directive::") or b.get("mac"):
                continue
            for n in walk(b["body"]):
                if n.get("k") == "Struct" and (n.get("adt") or "") in ("directive::NormalDirective", "directive::VModelDirective"):
                    fs = {f["name"]: expr_str(f["e"]) for f in n["fields"]}
                    fld = "argument" if n["adt"].endswith("NormalDirective") else "transformed_argument"
                    a = fs.get(fld, "")
                    # a condition that was given a name (`let has_modifiers = ..;`) is read through
                    fe = {f["name"]: f["e"] for f in n["fields"]}.get(fld)
                    if fe is not None:
                        from .hirflow import HirIndex
                        idxb = HirIndex(b)
                        for x in walk(fe):
                            if x.get("k") == "Path" and x["res"].get("r") == "local" and (x.get("ty") or "") == "bool":
                                bd = idxb.binding.get(x["res"]["id"])
                                if bd and bd.get("kind") == "let" and bd.get("init") is not None and not bd.get("path"):
                                    a = re.sub(r"\b%s\b" % re.escape(x["res"]["name"]), expr_str(bd["init"]).replace("\\", "\\\\"), a)
                    a = _void0_texts(ctx).sub("VOID0", a)
                    und = C.role(ctx, "undefined_fn")
                    if und is not None and _void0_texts(ctx).fullmatch(expr_str(und["body"])):
                        a = a.replace("undefined()", "VOID0")
                    ok = bool(NONEMPTY_MODS.search(a)) and bool(VOID_FILL.search(a)) and a.rstrip().endswith("else argument")
                    r.ob("%s.%s is `void 0` when modifiers exist without an argument" % (n["adt"].split("::")[-1], fld), ok, C.mloc(b, n), a[:150])
    # every construction of a directive takes its modifiers from what was parsed (an early `return` with `modifiers: None` forgets the suffixes)
    for b in ctx.facts.hir:
        if b["crate"] != VISITOR_CRATE or not b["path"].startswith("directive::") or b.get("mac"):
            continue
        k_ = 0
        for n in walk(b["body"]):
            if n.get("k") == "Struct" and (n.get("adt") or "") in ("directive::NormalDirective", "directive::VModelDirective"):
                k_ += 1
                mv = expr_str({f["name"]: f["e"] for f in n["fields"]}.get("modifiers", {}))
                # ... and from nothing else: the set that decides the `void 0` argument placeholder is the set that is emitted
                grown = re.search(r"\.(extend|insert|append|union|chain|extend_from_slice)\(", mv)
                r.ob("%s: %s #%d takes its modifiers from the parsed ones" % (b["name"], n["adt"].split("::")[-1], k_), mv != "None" and not grown, C.mloc(b, n),
                     mv[:60] if mv != "None" and not grown else
                     ("`modifiers: None` on this path: `_suffix` modifiers of the attribute name are dropped" if mv == "None" else
                      "modifiers are added (`.%s(..)`) while the directive is built, after the test that decides the `void 0` argument placeholder read the set" % grown.group(1)))
    mb = C.role(ctx, "modifiers_builder")
    if mb:
        t = expr_str(mb["body"])
        r.saw(mb["path"])
        r.ob("modifiers become `{name: true}` entries (none -> no object)", bool(re.search(r"if modifiers\.is_empty\(\) (ret )?None|^!modifiers\.is_empty\(\)\.then\(\|\| ", t)) and "value: Lit(Bool(Bool{span: DUMMY_SP, value: True}))" in t, C.mloc(mb, mb), t[:120])
    return r


def r04_6(ctx):
    r = Rule("R04.6", "sibling agreement: the v-html and v-text parsers are the same up to their message and variant", "the two directives must accept the same value forms")
    bs = [b for b in ctx.facts.hir if b["crate"] == VISITOR_CRATE and not b.get("mac") and b["inputs"] == ["&%sJSXAttr" % AST] and b["output"] == "directive::Directive"]
    texts = {}
    for b in bs:
        t = expr_str(b["body"], names={})
        if "Html(" in t or "Text(" in t:
            t2 = re.sub(r"'You have to use JSX Expression inside your `v-\w+`\.'", "'MSG'", t)
            t2 = re.sub(r"'[^']*\bv-(html|text)\b[^']*'", "'MSG'", t2)       # the message may be assembled from the directive's name
            t2 = t2.replace("Html(", "X(").replace("Text(", "X(")
            texts[b["name"]] = t2
            r.saw(b["path"])
    if len(texts) == 2:
        vals = list(texts.values())
        r.ob("v-html and v-text parsers agree", vals[0] == vals[1], "-", "identical up to message/variant" if vals[0] == vals[1] else "they differ: %s <> %s" % (vals[0][:120], vals[1][:120]))
    else:
        r.ob("v-html and v-text parsers agree", None, "-", "%d parser(s) found (shared helper?)" % len(texts))
    return r


def r04_7(ctx):
    r = Rule("R04.7", "v-html / v-text accept the array form: `v-html={[x]}` binds x (the first element), like every other directive value",
             "without the unwrapping `innerHTML` receives the array")
    for role in ("v_html_parser", "v_text_parser"):
        b = C.role(ctx, role)
        if b is None:
            r.ob("%s found" % role, None, "-", "role not resolved (shared helper?): not decided")
            continue
        r.saw(b["path"])
        from .hirflow import HirIndex
        idx = HirIndex(b)
        # a value leaf that is (a clone of) a binding introduced by a pattern over `<expr>.as_array() ... .elems.first()` / `elems.get(0)` / `[first, ..]`
        ok = False
        for n in walk(b["body"]):
            lo = local_of(strip_transparent(n)) if n.get("k") in ("Path", "MethodCall", "Unary", "Ref") else None
            if lo is None:
                continue
            bnd = idx.binding.get(lo[1])
            if not bnd or bnd.get("init") is None:
                continue
            t = expr_str(bnd["init"])
            if ("as_array()" in t or "Array(" in t) and ("elems.first()" in t or "elems.get(0)" in t or "elems[0]" in t or "elems.as_slice()" in t) and bnd.get("path"):
                ok = True
        r.ob("%s unwraps a one-element array value" % role, ok, C.mloc(b, b),
             "a value is bound through <value>.as_array()….elems.first()" if ok else "no use of a binding taken from the array's first element: `v-html={[x]}` passes the array itself")
    return r


def r04_8(ctx):
    r = Rule("R04.8", "a directive's value is the attribute's value in both of its written forms: `{expr}` and a plain string literal",
             "`v-tooltip=\"Save\"` binds `void 0` when only the expression-container form is read")
    dp = C.role_or_fail(ctx, r, "directive_parser")
    if not dp:
        return r
    r.saw(dp["path"])
    from .hirflow import HirIndex
    idx = HirIndex(dp)
    forms = {"container": False, "string": False}
    defs = []       # (node for the location, right-hand side, patterns known to have matched)
    for n in idx.nodes:
        if n.get("k") not in ("Assign", "Let"):
            continue
        if n.get("k") == "Let" and n["pat"].get("k") == "PTuple" and n.get("init") is not None:
            # `let (value, modifiers) = match &attr.value { <form> => (v, m), .. }`: one definition per arm
            pos = [i for i, p_ in enumerate(n["pat"]["pats"]) if p_.get("k") == "PBind" and p_.get("name") == "value"]
            if pos:
                from .c02 import _leaves
                for leaf in _leaves(n["init"]):
                    lf = strip_transparent(leaf)
                    if lf.get("k") == "Tup" and pos[0] < len(lf["items"]):
                        pats_ = [pat_str(p["pat"]) for p in idx.parents(leaf) if p.get("k") == "Arm"]
                        pats_ += [pat_str(f["pat"]) for f in idx.known_true(leaf) if not isinstance(f, tuple) and f.get("k") == "LetExpr"]
                        defs.append((leaf, lf["items"][pos[0]], pats_))
            continue
        tgt = local_of(n["l"]) if n.get("k") == "Assign" else ((n["pat"].get("name"), n["pat"].get("id")) if n["pat"].get("k") == "PBind" else None)
        if not tgt or tgt[0] != "value":
            continue
        rhs = n["r"] if n.get("k") == "Assign" else n.get("init")
        if rhs is None:
            continue
        pats = [pat_str(f["pat"]) for f in idx.known_true(n) if not isinstance(f, tuple) and f.get("k") == "LetExpr"]
        pats += [pat_str(p["pat"]) for p in idx.parents(n) if p.get("k") == "Arm"]
        defs.append((n, rhs, pats))
    for n, rhs, pats in defs:
        t = expr_str(rhs)
        if any("JSXExprContainer(" in p for p in pats) and "undefined()" not in t.split(" else ")[0][:20]:
            forms["container"] = True
        if any("Lit(Str(" in p for p in pats) and any(x.get("k") == "Struct" and x.get("adt") == AST + "Str" for x in walk(rhs)):
            forms["string"] = True
            tc_ = C.role(ctx, "text_cleaner")
            cleaned = tc_ is not None and any(x.get("k") == "Call" and x.get("callee") == tc_["path"] for x in walk(rhs))
            r.ob("a string directive value is passed as written", not cleaned, C.mloc(dp, n),
                 "built from str.value" if not cleaned else "the string goes through the JSX text cleaner: line breaks and indentation inside a directive's string value are rewritten")
    r.ob("value taken from an expression container", forms["container"], C.mloc(dp, dp), "`value = ..` under JSXExprContainer(..)" if forms["container"] else "not found")
    r.ob("value taken from a string literal attribute", forms["string"], C.mloc(dp, dp),
         "`value = Lit(Str(..))` under Lit(Str(..))" if forms["string"] else "no `value = <string literal>` under a `JSXAttrValue::Lit(Lit::Str(..))` pattern: `v-foo=\"text\"` binds `void 0`")
    return r


def rules(ctx):
    from ..engine import only
    return [__import__('vjsx.rules.c10', fromlist=['x']).field_ratchet('directive lowering must not depend on earlier elements'), r04_1, r04_2, r04_4, r04_5, r04_6, r04_7, r04_8,
            only(c07.r07_6, lambda k: "directive::" in k or k.startswith("JSX attribute literal"), "string values of v-html / v-text"),
            only(c11.r11_1, lambda k: k.startswith("parse_"), "value / argument of a parsed directive come from distinct parts of the attribute value")]


EXPLANATION = (
    "R04.1: the recogniser's slice pattern. R04.2: prefix removal is exactly `v` then `-`, only the first letter is lower-cased (no "
    "whole-string case folding among the resolved callees of the directive module), a plain name contributes no argument (suffixes are "
    "modifiers), a namespaced name takes its argument from the local part. R04.4: parser dispatch and runtime-definition dispatch tables; "
    "v-html/v-text set innerHTML/textContent; a runtime directive arm only pushes its binding. R04.5: the positional binding tuple and the "
    "`void 0` argument placeholder whenever modifiers exist; modifiers are `{name: true}`. R04.6: v-html / v-text parsers agree. R07.6 "
    "(no verbatim JSX string) and R11.1 (value/argument come from distinct parts) are shared."
)
ASSUMPTIONS = ["runtime resolution of the directive by Vue is not modelled"]
TRUSTED = ["rustc nightly typed HIR / MIR callees"]
LEVEL = "other"
LEVEL_TEXT = "Table, pattern and template checks (necessary conditions) on the resolved program."
LEVEL_NOTE = "Trusted: rustc HIR/MIR. Not decided: Vue's runtime directive resolution."
TECHNIQUE = "pattern / table extraction on typed HIR + resolved-callee denylist + sibling agreement"
