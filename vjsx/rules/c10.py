"""C10 — a JSX expression's lowering does not depend on unrelated code around it (state discipline)."""
import re
from ..facts import AST, VISITOR_CRATE, walk
from ..engine import Rule
from ..cfg import calls, callee_name, place_of, op_const
from . import common as C
from .mirflow import self_field_of, TRANSPARENT as MF_TRANSPARENT
from .influence import flow_of
from .state import access_index, is_visitor_body, root_path, first_field

# discipline per visitor field; a field that is not listed is reported (unclassified state)
DISCIPLINE = {
    "options": ("immutable", "configuration, fixed at construction"),
    "unresolved_mark": ("immutable", "fixed at construction"),
    "comments": ("immutable", "handle to the comment store; only position-local effects through a shared reference"),
    "vue_imports": ("P2", "idempotent registry: name -> fresh local identifier"),
    "slot_helper_ident": ("P2", "idempotent registry"),
    "transform_on_helper": ("P2", "idempotent registry"),
    "pragma": ("P3", "module-wide fact, fixed before the traversal starts"),
    "injecting_vars": ("P1-scope", "pending declarations of the current scope"),
    "injecting_consts": ("P1-scope", "pending declarations of the current scope"),
    "assignment_left": ("P1-window", "set for the duration of one `x = <JSX>` traversal"),
    "slot_flag_stack": ("P1-stack", "one entry per open JSX element; push/pop pairing is R13.5"),
    "slot_counter": ("exempt", "only feeds the symbol text of private identifiers, which hygiene renames; no value depends on it"),
    "define_component": ("resolve-type", "resolveType registry (C16/C20), not read by JSX lowering"),
    "interfaces": ("resolve-type", "resolveType registry (C16), not read by JSX lowering"),
    "type_aliases": ("resolve-type", "resolveType registry (C16), not read by JSX lowering"),
    "resolve_depth": ("resolver-internal", "recursion depth of the type resolver, back to 0 when a resolution ends"),
    "resolve_aborted": ("resolver-internal", "reset when the depth returns to 0"),
}

P2_LOOKUP_OR_CREATE = re.compile(r"(BTreeMap::<K, V, A>::entry|Option::<T>::get_or_insert_with|Option::<T>::get_or_insert|HashMap::<K, V, S, A>::entry)$")


def _is_visit_call(t):
    n = callee_name(t)
    return n.endswith("visit_mut_children_with") or n.endswith("::visit_mut_with")


def _closure_traverses(mb, closure_path, facts):
    cb = facts.mir_by_path.get((mb["crate"], closure_path))
    return cb is not None and any(_is_visit_call(t) for i, t in calls(cb))


def _traversal_blocks(mb, facts=None):
    """blocks of the method in which the child traversal happens: a direct visit_mut_children_with / visit_mut_with call,
    or a call that is handed a closure which performs such visits (e.g. `items.iter_mut().for_each(|i| i.visit_mut_with(self))`)"""
    out = [i for i, t in calls(mb) if _is_visit_call(t)]
    if out or facts is None:
        return out
    clos = {}
    for blk in mb["blocks"]:
        for s in blk["stmts"]:
            if s["k"] == "assign" and s["rv"].get("rk") == "agg" and s["rv"].get("agg") == "closure":
                clos[s["lhs"]["l"]] = s["rv"]["def"]
    for i, t in calls(mb):
        for a in t["args"]:
            p = place_of(a)
            if p is not None and p["l"] in clos and _closure_traverses(mb, clos[p["l"]], facts):
                out.append(i)
    return out


def _method_bodies(ctx):
    out = []
    for hb in C.visitor_methods(ctx):
        mb = C.mir_of(ctx, hb)
        if mb is not None:
            out.append((hb, mb))
    return out


def _is_root_method(hb):
    ty = hb["inputs"][1] if len(hb["inputs"]) > 1 else ""
    return ty in ("&mut %sModule" % AST, "&mut %sScript" % AST, "&mut %sProgram" % AST)


def r10_1(ctx):
    r = Rule("R10.1", "state-field discipline: every mutable visitor field is an idempotent registry, a module-wide fact fixed before traversal, or follows stack discipline",
             "state that leaks between statements makes a lowering depend on unrelated code")
    idx = access_index(ctx)
    fields = ctx.facts.struct_fields("VueJsxTransformVisitor") or []
    if not fields:
        r.ob("visitor struct found", False, "-", "struct VueJsxTransformVisitor not found")
        return r
    lowering = _lowering_bodies(ctx)
    for f in fields:
        name = f["name"]
        acc = idx.get(name, [])
        acc_outside_new = [a for a in acc if not root_path(a["body"]).endswith("::new")]
        disc = DISCIPLINE.get(name)
        if disc is None:
            writers = [a for a in acc_outside_new if a["mut"] or a["kind"] == "store"]
            deciding = lowering | _resolving_bodies(ctx)
            in_lowering = [a for a in acc_outside_new if (a["body"]["crate"], root_path(a["body"])) in deciding or "VisitMut>::visit_mut_expr" in root_path(a["body"])]
            if writers and not in_lowering:
                r.ob("field %s is classified" % name, True, "-", "new field, never touched by the JSX builders or anything they call (accessed in %s): it cannot influence a lowering" % sorted({root_path(a["body"]).split("::")[-1] for a in acc_outside_new})[:4])
            elif writers:
                r.ob("field %s is classified" % name, False, C.mloc(writers[0]["body"], writers[0]["node"]),
                     "mutable visitor field `%s: %s` has no state discipline on record: its influence on lowering is not shown to be local" % (name, f["ty"]))
            else:
                r.ob("field %s is classified" % name, True, "-", "never written after construction")
            continue
        kind, why = disc
        for a in acc_outside_new:
            r.saw(a["body"]["path"])
        if kind == "immutable":
            bad = [a for a in acc_outside_new if a["kind"] == "store" or (a["kind"] == "call" and a["mut"])]
            if bad:
                r.ob("%s is not written after construction" % name, False, C.mloc(bad[0]["body"], bad[0]["node"]), "written in %s" % root_path(bad[0]["body"]))
            else:
                r.ob("%s is not written after construction" % name, True, "-", "%d access(es), none mutating (%s)" % (len(acc_outside_new), why))
        elif kind == "P2":
            cells = _check_then_create_bodies(ctx, name, acc_outside_new)
            for a in acc_outside_new:
                rp = root_path(a["body"])
                if id(a["body"]) in cells and a["kind"] in ("store", "switch"):
                    why_ok, why_bad = cells[id(a["body"])]
                    r.ob("%s: %s of registry %s" % (rp, a["kind"], name), not why_bad, C.mloc(a["body"], a["node"]),
                         ("test-empty-then-create: " + why_ok) if not why_bad else "not a lookup-or-create of `%s`: %s" % (name, why_bad))
                    continue
                key = "%s: %s of registry %s" % (rp, a["kind"] if a["kind"] != "call" else a["callee"].split("::")[-1], name)
                if "VisitMut>::visit_mut_module" in rp or "VisitMut>::visit_mut_script" in rp:
                    r.ob(key, True, C.mloc(a["body"], a["node"]), "emission in the module method")
                elif a["kind"] == "call" and id(a["body"]) in cells and not cells[id(a["body"])][1] and not a["mut"] and MF_TRANSPARENT.search(a["callee"]):
                    r.ob(key, True, C.mloc(a["body"], a["node"]), "copy of the content inside the lookup-or-create")
                elif a["kind"] == "call" and P2_LOOKUP_OR_CREATE.search(a["callee"]):
                    r.ob(key, True, C.mloc(a["body"], a["node"]), "lookup-or-create")
                elif a["kind"] == "read":
                    # a borrow / copy of the reference: whatever consumes it (call, branch, store) is indexed on its own
                    continue
                else:
                    r.ob(key, False, C.mloc(a["body"], a["node"]),
                         "lowering code reads the *content* of registry `%s` (%s): what it sees depends on which JSX was lowered earlier in the module" % (name, a.get("callee", a["kind"])))
        elif kind == "P3":
            _check_p3(ctx, r, name, acc_outside_new)
        elif kind == "P1-scope":
            _check_scope(ctx, r, name)
        elif kind == "P1-window":
            _check_window(ctx, r, name)
        elif kind in ("resolve-type", "resolver-internal"):
            bad = [a for a in acc_outside_new if (a["body"]["crate"], root_path(a["body"])) in lowering]
            if bad:
                r.ob("%s is not read by JSX lowering" % name, False, C.mloc(bad[0]["body"], bad[0]["node"]), "accessed in %s, which the JSX builders reach" % root_path(bad[0]["body"]))
            else:
                r.ob("%s is not read by JSX lowering" % name, True, "-", why)
        elif kind == "P1-stack":
            r.ob("%s push/pop pairing" % name, True, "-", "decided by R13.5 (shared)")
        elif kind == "exempt":
            # the exemption must stay true: values read from it flow only into format!/symbol text or comparisons that pick a name
            bad = []
            for a in acc_outside_new:
                if a["kind"] == "switch":
                    # branching on it is allowed only inside the function that builds the identifier
                    hb = ctx.facts.hir_by_path.get((a["body"]["crate"], root_path(a["body"])))
                    if hb is None or hb["output"] != AST + "Ident":
                        bad.append(a)
            if bad:
                r.ob("%s only feeds identifier text" % name, False, C.mloc(bad[0]["body"], bad[0]["node"]), "a branch outside an identifier factory depends on it")
            else:
                r.ob("%s only feeds identifier text" % name, True, "-", why)
    return r


def _empty_variant(ctx, name):
    """the variant the constructor puts in field `name`, when it is a variant without payload"""
    for b in ctx.facts.mir:
        if b["crate"] != VISITOR_CRATE or not b["path"].endswith("VueJsxTransformVisitor::<C>::new"):
            continue
        for blk in b["blocks"]:
            for s in blk["stmts"]:
                rv = s.get("rv") or {}
                if s["k"] == "assign" and rv.get("rk") == "agg" and str(rv.get("adt") or "").endswith("VueJsxTransformVisitor") and name in (rv.get("fields") or []):
                    op = rv["ops"][rv["fields"].index(name)]
                    pl = place_of(op)
                    if pl is None or pl.get("p"):
                        return None
                    defs = [x["rv"] for bl2 in b["blocks"] for x in bl2["stmts"] if x["k"] == "assign" and x["lhs"]["l"] == pl["l"] and not x["lhs"].get("p")]
                    if len(defs) == 1 and defs[0].get("rk") == "agg" and defs[0].get("variant") and not defs[0].get("ops"):
                        return defs[0]["variant"]
    return None


def _check_then_create_bodies(ctx, name, accesses):
    """{id(body): (why it is a lookup-or-create, why it is not)} for every body outside the module methods that stores to the cell
    `name` or branches on it. A hand-written `get_or_insert_with`: the only store is a whole-field store of a payload variant, reached
    only through the arm of a test of the cell itself that finds the constructor's empty variant; what is stored is built without
    the function's other parameters or any other mutable state; and the function returns either the stored value or the content."""
    from .mirflow import TRANSPARENT
    out = {}
    empty = _empty_variant(ctx, name)
    by_body = {}
    for a in accesses:
        rp = root_path(a["body"])
        if "VisitMut>::visit_mut_module" in rp or "VisitMut>::visit_mut_script" in rp:
            continue
        if a["kind"] in ("store", "switch"):
            by_body.setdefault(id(a["body"]), (a["body"], []))[1].append(a)
    immut = {k for k, v in DISCIPLINE.items() if v[0] == "immutable"}
    for bid, (mb, accs) in by_body.items():
        stores = [a for a in accs if a["kind"] == "store"]
        switches = [a for a in accs if a["kind"] == "switch"]
        if not stores:
            continue    # a branch on the content without the creating store: judged by the caller (content read)
        bad = None
        if empty is None:
            bad = "the constructor does not start the cell in a payload-free variant"
        g = C.cfg_of(ctx, mb)
        fl = flow_of(ctx, mb)
        # arms that find the cell empty
        arms = []
        for a in switches:
            blk = mb["blocks"][a["bb"]]
            t = blk["term"]
            dl = place_of(t["discr"])
            for st in blk["stmts"]:
                if dl and st["k"] == "assign" and st["lhs"]["l"] == dl["l"] and st["rv"].get("rk") == "discr":
                    vmap = {v[1]: v[0] for v in st["rv"].get("variants", [])}
                    if empty in vmap and first_field(next(iter(self_field_of(fl.place_sources(st["rv"]["place"]))), "")) == name:
                        listed = {val: tgt for val, tgt in t["targets"]}
                        if vmap[empty] in listed:
                            tgt = listed[vmap[empty]]
                            if sum(1 for v2, t2 in t["targets"] if t2 == tgt) == 1 and t.get("otherwise") != tgt:
                                arms.append(tgt)
                        elif t.get("otherwise") is not None and len(listed) == len(vmap) - 1:
                            arms.append(t["otherwise"])
        # an arm counts only if nothing else leads into it (a guard that falls through to it does)
        arms = [t for t in arms if set(g.pred[t]) <= {a["bb"] for a in switches}]
        stored_src = set()
        for a in stores:
            if bad:
                break
            node = a["node"]
            if a["path"].strip(".") != name:
                bad = "a store into the content (%s)" % a["path"]
            elif not any(g.dominates(t, a["bb"]) for t in arms):
                bad = "the store is not confined to the arm of a test of the cell that finds it %s" % (empty,)
            else:
                rv = node["rv"]
                if rv.get("rk") == "use" and place_of(rv["op"]) is not None and not place_of(rv["op"]).get("p"):
                    ds = [x["rv"] for bl2 in mb["blocks"] for x in bl2["stmts"] if x["k"] == "assign" and x["lhs"]["l"] == place_of(rv["op"])["l"] and not x["lhs"].get("p")]
                    rv = ds[0] if len(ds) == 1 else rv
                if not (rv.get("rk") == "agg" and rv.get("variant") and rv.get("variant") != empty):
                    bad = "what is stored is not a payload variant built on the spot"
                    break
                for o in rv.get("ops", []):
                    for d in fl.op_deps(o):
                        if d[0] == "param" and d[1] >= 2:
                            bad = "the stored value depends on parameter %d of the function" % d[1]
                        elif d[0] == "param" and d[1] == 1 and first_field(d[2]) not in immut:
                            bad = "the stored value depends on visitor state (%s)" % d[2]
                        elif d[0] == "upvar":
                            bad = "the stored value depends on a captured %s" % d[1]
                        elif d[0] == "call" and ((mb["crate"], d[1]) in ctx.facts.mir_by_path or (VISITOR_CRATE, d[1]) in ctx.facts.mir_by_path):
                            bad = "the stored value comes from local function %s" % d[1]
                    stored_src |= {x for x in fl.op_sources(o) if x[0] in ("call", "agg", "const")}
        if not bad and mb["dk"] != "Closure":
            # the result: the content of the cell, or what was stored
            for x in fl.sources(0):
                if x[0] == "param" and x[1] == 1 and {first_field(f) for f in self_field_of({x})} == {name}:
                    continue
                if x[0] == "call" and TRANSPARENT.search(x[1]):
                    continue
                if x in stored_src or x[0] in ("agg", "const"):
                    continue
                bad = "the function's result is neither the content of the cell nor what was just stored (%s)" % (x,)
                break
        out[bid] = ("the only store of `%s` sits on the %s arm of a test of the cell, stores a payload variant built from fresh values only, "
                    "and the function returns the content or what it stored" % (name, empty), bad)
    return out


def _resolving_bodies(ctx):
    """what the type-resolution entry points reach (their result is written into the output as well)"""
    roots = []
    for role in ("props_extractor", "emits_extractor", "dc_pred"):
        b = C.role(ctx, role)
        if b:
            roots.append((b["crate"], b["path"]))
    nodes, edges = C.call_graph(ctx)
    seen = set()
    st = list(roots)
    while st:
        x = st.pop()
        if x in seen:
            continue
        seen.add(x)
        for y in edges.get(x, ()):
            if "VisitMut>::visit_mut_" in y[1]:
                continue
            st.append(y)
    return seen


def _lowering_bodies(ctx):
    roots = []
    for role in ("element_builder", "fragment_builder"):
        b = C.role(ctx, role)
        if b:
            roots.append((b["crate"], b["path"]))
    nodes, edges = C.call_graph(ctx)
    seen = set()
    st = list(roots)
    while st:
        x = st.pop()
        if x in seen:
            continue
        seen.add(x)
        for y in edges.get(x, ()):
            if "VisitMut>::visit_mut_" in y[1]:
                continue
            st.append(y)
    return seen


def _check_p3(ctx, r, name, acc):
    writers = sorted({root_path(a["body"]) for a in acc if a["kind"] == "store" or (a["kind"] == "call" and a["mut"])})
    if not writers:
        r.ob("%s has a pre-pass writer" % name, None, "-", "no writer found")
        return
    nodes, edges = C.call_graph(ctx)
    methods = _method_bodies(ctx)
    root_methods = [(hb, mb) for hb, mb in methods if _is_root_method(hb)]
    for w in writers:
        # all call sites of w in VisitMut methods (and their closures)
        sites = []
        for k, b in nodes.items():
            if k[0] != VISITOR_CRATE:
                continue
            for i, t in calls(b):
                if callee_name(t) == w:
                    sites.append((b, i, t))
        ok = bool(sites)
        detail = []
        for b, i, t in sites:
            rp = root_path(b)
            host = [(hb, mb) for hb, mb in root_methods if mb["path"] == rp]
            if not host:
                ok = False
                detail.append("called from %s, which is not the module method" % rp)
                continue
            hb, mb = host[0]
            g = C.cfg_of(ctx, mb)
            tb = _traversal_blocks(mb, ctx.facts)
            if b is mb:
                blocks = [i]
            else:
                # a closure of the module method: locate where the closure is used (the call that receives it)
                blocks = _closure_use_blocks(mb, b)
                if any(_is_visit_call(tt) for _, tt in calls(b)):
                    ok = False
                    detail.append("%s is called from the closure that also performs the traversal: the scan is interleaved with the lowering of earlier items" % w.split("::")[-1])
            for blk in blocks:
                after = any(blk in g.reach_after(tt) for tt in tb)
                # "before": it dominates the traversal, or it sits in a loop that is left before the traversal starts (a scan over the items)
                before = all(g.dominates(blk, tt) or (g.can_reach(blk, tt) and blk in g.reach_after(blk))
                             for tt in tb) if tb else False
                if after or not before:
                    ok = False
                    detail.append("call site bb%d of %s is %s the child traversal" % (blk, w.split("::")[-1], "reachable after" if after else "not always before"))
        key = "%s is written only by the pre-pass before the traversal" % name
        loc = C.mloc(sites[0][0], sites[0][2]) if sites else "-"
        r.ob(key, ok, loc, "; ".join(detail) if detail else "%d call site(s) of %s, all in the module method and dominating its child traversal" % (len(sites), w.split("::")[-1]))


def _borrowed_local(fl, op):
    """the local x of an operand `&mut x` (through re-borrows), or None"""
    p = place_of(op)
    seen = set()
    while p is not None and p["l"] not in seen:
        seen.add(p["l"])
        d = fl.defs.get(p["l"], [])
        if len(d) != 1 or d[0][0] != "stmt":
            return None
        rv = d[0][2]["rv"]
        if rv.get("rk") == "use":
            p = place_of(rv.get("op"))
        elif rv.get("rk") == "ref":
            q = rv["place"]
            if not (q.get("p") or []):
                return q["l"]
            p = {"l": q["l"]} if q.get("p") == ["*"] else None
        else:
            return None
    return None


def _fresh_empty(fl, local):
    """the local's only definition is an empty vector"""
    d = fl.defs.get(local, [])
    return len(d) == 1 and d[0][0] == "call" and re.search(r"(Vec::<T>::new|Vec::<T, A>::new|Default>::default|Vec::<T>::with_capacity)$", callee_name(d[0][2])) is not None


def _closure_use_blocks(mb, closure_body):
    out = []
    for blk in mb["blocks"]:
        for s in blk["stmts"]:
            if s["k"] == "assign" and s["rv"].get("rk") == "agg" and s["rv"].get("agg") == "closure" and s["rv"].get("def") == closure_body["path"]:
                out.append(blk["i"])
    return out


def _check_scope(ctx, r, name):
    """save at scope entry, drain, restore — in every non-root VisitMut method that drains `name`"""
    for hb, mb in _method_bodies(ctx):
        g = C.cfg_of(ctx, mb)
        fl = flow_of(ctx, mb)
        tb = _traversal_blocks(mb, ctx.facts)
        takes = []
        stores = []
        replaces = []
        swaps = []      # mem::swap(&mut self.<name>, &mut local): a save when the local is a fresh empty vector, a restore when it holds the saved one
        for blk in mb["blocks"]:
            if blk.get("cleanup"):
                continue
            t = blk.get("term") or {}
            if t.get("k") == "call" and callee_name(t).endswith("core::mem::take") and t["args"]:
                if name in {first_field(f) for f in self_field_of(fl.op_sources(t["args"][0]))}:
                    takes.append((blk["i"], t))
            if t.get("k") == "call" and callee_name(t).endswith("core::mem::replace") and len(t["args"]) == 2:
                # `mem::replace(&mut self.<name>, x)`: takes what is pending and stores x in one step
                if name in {first_field(f) for f in self_field_of(fl.op_sources(t["args"][0]))}:
                    takes.append((blk["i"], t))
                    replaces.append((blk["i"], t))
            if t.get("k") == "call" and callee_name(t).endswith("core::mem::swap") and len(t["args"]) == 2:
                fa = [name in {first_field(f) for f in self_field_of(fl.op_sources(a))} for a in t["args"]]
                if fa[0] != fa[1]:
                    other = t["args"][1] if fa[0] else t["args"][0]
                    swaps.append((blk["i"], t, _borrowed_local(fl, other)))
            for s in blk["stmts"]:
                if s["k"] == "assign" and "*" in (s["lhs"].get("p") or []) and name in {first_field(f) for f in self_field_of(fl.place_sources(s["lhs"]))}:
                    stores.append((blk["i"], s))
        drains = [(b, t) for b, t in takes if any(b in g.reach_after(tt) for tt in tb)]
        if not drains:
            continue
        for db, dt in drains:
            fate = _drained_list_fate(ctx, mb, g, fl, db, dt)
            if fate is not None:
                r.ob("%s: what is taken out of %s after the traversal is emitted" % (hb["name"], name), False, C.mloc(mb, dt), fate[1])
        key = "%s: %s is saved at scope entry and restored after the drain" % (hb["name"], name)
        if _is_root_method(hb):
            r.ob("%s: %s drained at the outermost scope" % (hb["name"], name), True, C.mloc(mb, drains[0][1]), "root scope: nothing can be pending on entry (fields start empty)")
            continue
        saves = [(b, t) for b, t in takes if tb and all(g.dominates(b, tt) for tt in tb) and not any(b in g.reach_after(tt) for tt in tb)]
        swap_saves = [(b, t, l) for b, t, l in swaps if l is not None and tb and all(g.dominates(b, tt) for tt in tb) and not any(b in g.reach_after(tt) for tt in tb)
                      and _fresh_empty(fl, l)]
        saves = saves + [(b, t) for b, t, l in swap_saves]
        if not saves:
            r.ob(key, False, C.mloc(mb, drains[0][1]),
                 "`%s` is drained after the child traversal but not saved before it: declarations pending from the enclosing scope are emitted into this (inner) scope" % name)
            continue
        save_bbs = {b for b, t in saves}
        restore_blocks = set()
        for b, s in stores:
            rv = s["rv"]
            src = place_of(rv.get("op", {})) if rv.get("rk") == "use" else None
            if src is None or not any(b in g.reach_after(tt) for tt in tb):
                continue
            if any(x[0] == "call" and x[1].endswith("core::mem::take") and x[2] in save_bbs for x in fl.sources(src["l"])):
                restore_blocks.add(b)
        for b, t in replaces:
            src = place_of(t["args"][1])
            if src is not None and any(b in g.reach_after(tt) for tt in tb) and \
                    any(x[0] == "call" and x[1].endswith("core::mem::take") and x[2] in save_bbs for x in fl.sources(src["l"])):
                restore_blocks.add(b)
        for b, t, l in swaps:
            # swapping the saved vector back after the traversal restores it
            if any(b in g.reach_after(tt) for tt in tb) and l is not None and any(l == sl for _, _, sl in swap_saves):
                restore_blocks.add(b)
        last_t = tb[-1]
        # abstract walk over {is `injecting_*` empty?}: whatever this scope left pending must be drained before
        # the restore overwrites it (expression bodies only: a block body drains through its own statement list)
        lost = _abstract_drain_check(ctx, mb, g, fl, last_t, name, restore_blocks)
        if lost:
            r.ob(key, False, C.mloc(mb, mb),
                 "with `%s` non-empty after the child traversal (%s) the restore in bb%d is reached without draining it: those declarations are silently dropped" % (name, lost[1], lost[0]))
            continue
        if restore_blocks and g.must_pass(restore_blocks, start=last_t):
            r.ob(key, True, C.mloc(mb, saves[0][1]), "take in bb%d dominates the traversal; the saved list is stored back on every path to return (bb%s)" % (saves[0][0], sorted(restore_blocks)))
        else:
            e = g.escaping_exit(restore_blocks, start=last_t) if restore_blocks else None
            r.ob(key, False, C.mloc(mb, saves[0][1]), "the saved list is not restored on every path (%s): an outer pending declaration is lost" % ("return bb%s escapes" % e if e is not None else "no restore store"))


def _drained_list_fate(ctx, mb, g, fl, drain_bb, t):
    """What is taken out of a pending list after the traversal is a list of declarations the lowered code refers to: on every path
    to return the taken value is moved into something (a VarDecl, a call) or the path knows it to be empty. Returns None when
    that holds (or when the value is never used at all: a pure restore, judged by the abstract drain check), else (block, why)."""
    dest = t["dest"]
    if dest.get("p") or t.get("target") is None:
        return None
    alias = {dest["l"]}
    changed = True
    while changed:
        changed = False
        for blk in mb["blocks"]:
            for st in blk["stmts"]:
                if st["k"] == "assign" and not st["lhs"].get("p") and st["rv"].get("rk") == "use":
                    q = st["rv"]["op"].get("move")
                    if q and not q.get("p") and q["l"] in alias and st["lhs"]["l"] not in alias:
                        alias.add(st["lhs"]["l"])
                        changed = True

    def moved(op):
        q = op.get("move") if isinstance(op, dict) else None
        return q is not None and not q.get("p") and q["l"] in alias
    consume = set()
    for blk in mb["blocks"]:
        if blk.get("cleanup"):
            continue
        for st in blk["stmts"]:
            if st["k"] == "assign":
                rv = st["rv"]
                if rv.get("rk") == "agg" and any(moved(o) for o in rv.get("ops", [])):
                    consume.add(blk["i"])
                if rv.get("rk") == "use" and moved(rv["op"]) and (st["lhs"].get("p") or st["lhs"]["l"] == 0):
                    consume.add(blk["i"])       # stored into a place (a field, the return value)
        tt = blk.get("term") or {}
        if tt.get("k") == "call" and any(moved(a) for a in tt["args"]) and not callee_name(tt).endswith(("core::mem::drop",)):
            consume.add(blk["i"])
    if not consume:
        return None

    def empty_edge(x):
        """(target when the taken list is empty) for a switch on `alias.is_empty()` / its negation"""
        tt = mb["blocks"][x].get("term") or {}
        if tt.get("k") != "switch":
            return None
        p = place_of(tt["discr"])
        neg = False
        l = p["l"] if p and not p.get("p") else None
        for _ in range(6):
            if l is None:
                return None
            ds = fl.defs.get(l, [])
            if len(ds) != 1:
                return None
            kind, bb, d = ds[0]
            if kind == "call":
                if callee_name(d).endswith("::is_empty") and d["args"]:
                    q = place_of(d["args"][0])
                    roots = set()
                    if q is not None:
                        for kk, b2, d2 in fl.defs.get(q["l"], []):
                            if kk == "stmt" and d2["rv"].get("rk") == "ref":
                                roots.add(d2["rv"]["place"]["l"])
                        roots.add(q["l"])
                    if roots & alias:
                        val = 0 if neg else 1
                        tg = [b3 for v, b3 in tt["targets"] if v == val]
                        return tg[0] if tg else tt.get("otherwise")
                return None
            rv = d["rv"]
            if rv.get("rk") == "unop" and rv.get("op") == "Not":
                neg = not neg
                q = place_of(rv["a"])
                l = q["l"] if q and not q.get("p") else None
            elif rv.get("rk") == "use":
                q = place_of(rv["op"])
                l = q["l"] if q and not q.get("p") else None
            else:
                return None
        return None
    seen = set()
    st = [t["target"]]
    while st:
        x = st.pop()
        if x in seen or x in consume:
            continue
        seen.add(x)
        blk = mb["blocks"][x]
        if blk.get("cleanup"):
            continue
        tt = blk.get("term") or {}
        if tt.get("k") == "return":
            return (x, "a path from the take in bb%d reaches return (bb%d) without moving the taken declarations anywhere and without a test that finds them empty" % (drain_bb, x))
        nxt = list(g.succ[x])
        if tt.get("k") == "switch":
            only = _expr_arm_only(mb, blk, tt, fl)
            if only is not None:
                nxt = only
            else:
                e = empty_edge(x)
                if e is not None:
                    nxt = [b for b in nxt if b != e]
        st.extend(nxt)
    return None


PENDING = ("injecting_vars", "injecting_consts")


def _bool_expr(mb, fl, local, depth=0):
    """('empty', field) | ('not', e) | None for a bool local"""
    if depth > 6:
        return None
    for kind, bb, d in fl.defs.get(local, []):
        if kind == "call":
            if callee_name(d).endswith("::is_empty") and d["args"]:
                fs = {first_field(f) for f in self_field_of(fl.op_sources(d["args"][0]))}
                for f in fs:
                    if f in PENDING:
                        return ("empty", f)
            return None
        rv = d["rv"]
        if rv.get("rk") == "unop" and rv.get("op") == "Not":
            p = place_of(rv["a"])
            inner = _bool_expr(mb, fl, p["l"], depth + 1) if p else None
            return ("not", inner) if inner else None
        if rv.get("rk") == "use":
            p = place_of(rv["op"])
            if p and not p.get("p"):
                return _bool_expr(mb, fl, p["l"], depth + 1)
    return None


def _eval(e, state):
    if e[0] == "empty":
        return state[e[1]]
    return not _eval(e[1], state)


def _abstract_drain_check(ctx, mb, g, fl, start, name, restore_blocks):
    import itertools
    for init in itertools.product([True, False], repeat=len(PENDING)):
        state0 = dict(zip(PENDING, init))
        if state0[name]:
            continue
        seen = set()
        st = [(s, tuple(sorted(state0.items()))) for s in g.succ[start]]
        while st:
            b, stt = st.pop()
            if (b, stt) in seen:
                continue
            seen.add((b, stt))
            state = dict(stt)
            blk = mb["blocks"][b]
            if b in restore_blocks:
                # is this the restore of `name`?
                tt_ = blk.get("term") or {}
                if tt_.get("k") == "call" and callee_name(tt_).endswith("core::mem::swap") and not state[name]:
                    return (b, ", ".join("%s %s" % (k, "empty" if v else "non-empty") for k, v in sorted(state0.items())))
                for s in blk["stmts"]:
                    if s["k"] == "assign" and "*" in (s["lhs"].get("p") or []) and name in {first_field(f) for f in self_field_of(fl.place_sources(s["lhs"]))}:
                        if not state[name]:
                            return (b, ", ".join("%s %s" % (k, "empty" if v else "non-empty") for k, v in sorted(state0.items())))
            t = blk.get("term") or {}
            if t.get("k") == "call" and callee_name(t).endswith("core::mem::take") and t["args"]:
                for f in {first_field(f) for f in self_field_of(fl.op_sources(t["args"][0]))}:
                    if f in state:
                        state[f] = True
            nxt = g.succ[b]
            if t.get("k") == "switch":
                p = place_of(t["discr"])
                e = _bool_expr(mb, fl, p["l"]) if p and not p.get("p") else None
                if e is not None:
                    val = 1 if _eval(e, state) else 0
                    tg = [bb for v, bb in t["targets"] if v == val]
                    nxt = tg if tg else [t["otherwise"]]
                else:
                    # discriminant of the node itself: only the expression-body arm needs the wrap
                    arms = _expr_arm_only(mb, blk, t, fl)
                    if arms is not None:
                        nxt = arms
            for n2 in nxt:
                st.append((n2, tuple(sorted(state.items()))))
    return None


def _expr_arm_only(mb, blk, t, fl):
    p = place_of(t["discr"])
    if not p:
        return None
    for s in blk["stmts"]:
        if s["k"] == "assign" and s["lhs"]["l"] == p["l"] and s["rv"].get("rk") == "discr":
            pl = s["rv"]["place"]
            on_node = pl["l"] == 2 or any(x[0] == "param" and x[1] == 2 for x in fl.place_sources(pl))
            if on_node and s["rv"].get("adt", "").endswith("BlockStmtOrExpr"):
                vmap = {v[1]: v[0] for v in s["rv"].get("variants", [])}
                if "Expr" in vmap:
                    tg = [bb for v, bb in t["targets"] if v == vmap["Expr"]]
                    return tg if tg else [t["otherwise"]]
    return None


def _check_window(ctx, r, name):
    """a field written for one sub-traversal: written before it, cleared after it"""
    found = False
    for hb, mb in _method_bodies(ctx):
        g = C.cfg_of(ctx, mb)
        fl = flow_of(ctx, mb)
        tb = _traversal_blocks(mb, ctx.facts)
        sets, clears = [], []
        for blk in mb["blocks"]:
            if blk.get("cleanup"):
                continue
            for s in blk["stmts"]:
                if s["k"] == "assign" and "*" in (s["lhs"].get("p") or []) and name in {first_field(f) for f in self_field_of(fl.place_sources(s["lhs"]))}:
                    rv = s["rv"]
                    is_none = rv.get("rk") == "agg" and rv.get("variant") == "None"
                    if is_none:
                        clears.append((blk["i"], s))
                    else:
                        # value moved from a local built as Some(..)?
                        src = place_of(rv.get("op", {})) if rv.get("rk") == "use" else None
                        none_src = False
                        if src is not None:
                            srcs = fl.sources(src["l"])
                            none_src = any(x[0] == "agg" and x[2] == "None" for x in srcs) and not any(x[0] == "agg" and x[2] == "Some" for x in srcs)
                        (clears if none_src else sets).append((blk["i"], s))
            t = blk.get("term") or {}
            if t.get("k") == "call" and callee_name(t).endswith("Option::<T>::take") and t["args"]:
                if name in {first_field(f) for f in self_field_of(fl.op_sources(t["args"][0]))}:
                    clears.append((blk["i"], t))
        if not sets:
            continue
        found = True
        for b, s in sets:
            key = "%s: %s is set only for the duration of the child traversal" % (hb["name"], name)
            loc = C.mloc(mb, s)
            if any(b in g.reach_after(tt) for tt in tb):
                r.ob(key, False, loc, "`%s` is written after the child traversal: the value survives into whatever is lowered next" % name)
                continue
            clear_blocks = {cb for cb, _ in clears if any(cb in g.reach_after(tt) for tt in tb)}
            if not clear_blocks:
                r.ob(key, False, loc, "`%s` is set before the traversal but never cleared after it in this method" % name)
                continue
            if _correlated_must_pass(mb, g, b, clear_blocks):
                r.ob(key, True, loc, "set in bb%d before the traversal, cleared in bb%s on every path that set it (flag-correlated)" % (b, sorted(clear_blocks)))
            else:
                r.ob(key, False, loc, "a path that sets `%s` reaches return without clearing it" % name)
    if not found:
        r.ob("%s has a writer in a VisitMut method" % name, None, "-", "no Some-store found (field unused?)")


def _correlated_must_pass(mb, g, start_bb, through):
    """must-pass-through from start_bb to return, following for boolean flag locals assigned a constant on
    the start path only the switch edge consistent with that constant"""
    # constants assigned to locals in blocks on the straight-line path from start_bb (until first branch)
    consts = {}
    b = start_bb
    seen = set()
    while b not in seen:
        seen.add(b)
        for s in mb["blocks"][b]["stmts"]:
            if s["k"] == "assign" and not s["lhs"].get("p") and s["rv"].get("rk") == "use":
                c = op_const(s["rv"]["op"])
                if c is not None and "bool" in c:
                    consts[s["lhs"]["l"]] = c["bool"]
        succ = g.succ[b]
        if len(succ) != 1:
            break
        b = succ[0]
    # a flag tested on the way *into* start_bb: the block is entered only through one edge of a switch on a local that is
    # defined once (`let is_x = ..; if is_x { set }`): on every path from here the flag has that value
    def _single_def(l):
        n = 0
        for bl in mb["blocks"]:
            n += sum(1 for s_ in bl["stmts"] if s_["k"] == "assign" and s_["lhs"]["l"] == l and not s_["lhs"].get("p"))
            t_ = bl.get("term") or {}
            n += 1 if t_.get("k") == "call" and t_["dest"]["l"] == l and not t_["dest"].get("p") else 0
        return n == 1
    cur = start_bb
    hops = 0
    while hops < 6 and len(g.pred[cur]) == 1:
        hops += 1
        pb = g.pred[cur][0]
        t = mb["blocks"][pb].get("term") or {}
        if t.get("k") == "switch":
            p = place_of(t["discr"])
            if p is not None and not p.get("p") and p.get("ty", "bool") == "bool":
                flag = p["l"]
                for s_ in mb["blocks"][pb]["stmts"]:
                    if s_["k"] == "assign" and s_["lhs"]["l"] == flag and s_["rv"].get("rk") == "use":
                        q = place_of(s_["rv"]["op"])
                        if q is not None and not q.get("p"):
                            flag = q["l"]
                vals = [v for v, bb in t["targets"] if bb == cur]
                if _single_def(flag) and flag not in consts:
                    if len(vals) == 1 and t.get("otherwise") != cur:
                        consts[flag] = bool(vals[0])
                    elif not vals and t.get("otherwise") == cur and [v for v, _ in t["targets"]] == [0]:
                        consts[flag] = True
        cur = pb
    # locals that are never re-assigned elsewhere with a different constant on the way: keep simple — flags only
    visited = set()
    st = [start_bb]
    while st:
        x = st.pop()
        if x in visited or x in through:
            continue
        visited.add(x)
        if x in g.returns:
            return False
        t = mb["blocks"][x].get("term") or {}
        nxt = g.succ[x]
        if t.get("k") == "switch":
            p = place_of(t["discr"])
            flag = None
            if p is not None and not p.get("p"):
                flag = p["l"]
                # switch on a copy of the flag
                if flag not in consts:
                    for s in mb["blocks"][x]["stmts"]:
                        if s["k"] == "assign" and s["lhs"]["l"] == flag and s["rv"].get("rk") == "use":
                            q = place_of(s["rv"]["op"])
                            if q is not None and not q.get("p") and q["l"] in consts:
                                flag = q["l"]
            if flag in consts:
                val = 1 if consts[flag] else 0
                tgt = [bb for v, bb in t["targets"] if v == val]
                nxt = tgt if tgt else [t["otherwise"]]
        st.extend(nxt)
    return True


def r10_2(ctx):
    r = Rule("R10.2", "no other cross-statement channel: no statics, no interior mutability outside the resolver guard",
             "hidden state carries information between statements")
    F = ctx.facts
    fields = F.struct_fields("VueJsxTransformVisitor") or []
    for f in fields:
        if re.search(r"\b(Cell|RefCell|Mutex|RwLock|Atomic\w+|OnceCell)\b", f["ty"]) or "core::cell::" in f["ty"]:
            d = DISCIPLINE.get(f["name"])
            ok = d is not None and d[0] == "resolver-internal"
            if not ok:
                lowering = _lowering_bodies(ctx)
                acc = access_index(ctx).get(f["name"], [])
                touched = [a for a in acc if (a["body"]["crate"], root_path(a["body"])) in lowering]
                ok = not touched
            r.ob("interior-mutable field %s" % f["name"], ok, "-", (d[1] if d and ok else ("not accessed by the JSX builders or their callees" if ok else "interior mutability in a field that lowering code accesses through &self")))
    n = 0
    for it in F.items:
        if it["crate"] == VISITOR_CRATE and it.get("kind") == "static" and not it.get("mac"):
            n += 1
            r.ob("static %s" % it["path"], False, "%s:%s" % (it.get("file"), it["sp"][0]), "hand-written static: state outside the visitor")
    r.ob("no hand-written statics in the visitor crate", n == 0, "-", "%d found" % n)
    return r


def field_ratchet(why):
    """R10.1 restricted to "is every mutable visitor field that output-deciding code touches a field with a state discipline on record":
    shared with the properties whose lowering a new cache / memo / flag on the visitor could make depend on earlier code"""
    from ..engine import only
    return only(r10_1, lambda k: k.startswith("field "), why)


def rules(ctx):
    from . import c06
    # generated names must be fresh bindings: a generated `_x` that can be the user's `_x` makes a lowering depend on (and disturb) unrelated code
    from ..engine import only
    from . import c20
    return [r10_1, r10_2, c06.r06_6,
            only(c20.r20_2, lambda k: 'recorded' in k, 'a module-wide fact recorded from one import must not be undone by an unrelated later import')]


EXPLANATION = (
    "The only history a lowering can see is the visitor's fields. R10.1 enumerates every field of VueJsxTransformVisitor and every MIR access "
    "to it (stores, borrows passed to callees, branches) and checks the field's discipline: immutable after construction; P2 idempotent "
    "registry (only lookup-or-create in lowering code, emission in the module method — a read of registry *content* is reported); P3 "
    "module-wide fact (all writers run before, never after, the module method's child traversal); P1 scope (pending declarations are taken "
    "before the child traversal and stored back on every path after the drain); P1 window (assignment target set before and cleared after "
    "the traversal, never written after it). A field without a discipline on record is reported. R10.2: no statics, interior mutability only "
    "in the resolver's depth guard."
)
ASSUMPTIONS = [
    "swc_ecma_visit calls the visitor's methods in source order and only from visit_mut_children_with",
    "hygiene renames private identifiers by (symbol, context): slot_counter cannot influence values",
    "resolveType registries (interfaces, type_aliases, define_component) are filled during traversal — their order dependence is reported under C16",
]
TRUSTED = ["rustc nightly MIR", "swc_ecma_visit", "swc hygiene"]
LEVEL = "other"
LEVEL_TEXT = ("Exhaustive classification of all visitor state and all of its access sites in the resolved program against stack / registry / "
              "pre-pass disciplines (dominance, must-pass-through and reachability on MIR). Shows that lowering reads no state written by "
              "unrelated statements; it does not evaluate outputs.")
LEVEL_NOTE = "Trusted: rustc MIR, traversal order of swc_ecma_visit, hygiene. Observable values of the lowered expressions are not computed."
TECHNIQUE = "typestate-like field discipline over MIR: access inventory + dominance / must-pass-through with flag correlation"
