"""C08 — the transform is total and deterministic."""
import json, os, re
from ..facts import AST, VISITOR_CRATE, PLUGIN_CRATE, walk, walk_with_parents, strip_transparent, local_of, field_path
from ..engine import Rule, VERIF
from ..cfg import calls, callee_name, place_of, op_const
from . import common as C
from .hirflow import HirIndex, conjuncts

SITES_TABLE = os.path.join(VERIF, "rules", "c08_sites.json")

PANIC_CALL = re.compile(
    r"(^core::panicking::|^std::rt::(begin_panic|panic)|^std::panicking::|::unwrap$|::expect$|::unwrap_err$|::expect_err$|::unwrap_unchecked$"
    r"|Vec::<T, A>::(remove|insert|swap_remove|split_off|drain|splice)$|VecDeque::<T, A>::(remove|insert|swap_remove_back|swap_remove_front|drain|split_off)$"
    r"|::index$|::index_mut$|RefCell::<T>::(borrow|borrow_mut)$|ScopedKey::<T>::with$|LocalKey::<T>::with$"
    r"|::split_at$|::split_at_mut$|::copy_from_slice$|::clone_from_slice$|String::(remove|insert|insert_str|drain|replace_range|split_off|truncate)$"
    r"|process::(exit|abort)$|slice::<impl \[T\]>::(swap|rotate_left|rotate_right|chunks|chunks_exact|windows|copy_within|select_nth_unstable)$"
    r"|::step_by$|char::from_digit$|::div_euclid$|::rem_euclid$|IndexMap::<K, V, S>::(swap_indices|move_index|shift_insert)$|IndexSet::<T, S>::(swap_indices|move_index|shift_insert)$"
    r"|::assert_failed$|str::<impl str>::(split_at)$)")

IGNORED_ASSERTS = {"MisalignedPointerDereference", "NullPointerDereference"}


def load_table():
    with open(SITES_TABLE) as fh:
        return json.load(fh)["sites"]


def _root(b):
    return b["parent"] if b["dk"] == "Closure" else b["path"]


def panic_sites(ctx):
    """every panic-capable site of both crates from MIR: dict with fn, kind, what, span, mac, body"""
    F = ctx.facts
    out = []
    for b in F.mir:
        root = _root(b)
        rootb = F.mir_by_path.get((b["crate"], root)) or b
        fmac = rootb.get("mac") or []
        for blk in b["blocks"]:
            if blk.get("inlined_from") and (b["crate"], blk["inlined_from"]) in F.mir_by_path:
                continue    # a copy of a helper's block (normalise.py); the site is counted in the helper's own body
            t = blk.get("term") or {}
            if t.get("k") == "assert" and t["assert"] not in IGNORED_ASSERTS:
                out.append({"crate": b["crate"], "fn": root, "fn_mac": fmac, "kind": "assert", "what": t["assert"],
                            "sp": t.get("sp"), "mac": t.get("mac") or [], "body": b, "term": t, "bb": blk["i"]})
            elif t.get("k") == "call":
                n = callee_name(t)
                if PANIC_CALL.search(n):
                    out.append({"crate": b["crate"], "fn": root, "fn_mac": fmac, "kind": "call", "what": n,
                                "sp": t.get("sp"), "mac": t.get("mac") or [], "body": b, "term": t, "bb": blk["i"]})
    return out


# ---- HIR guard recognition -----------------------------------------------------------
def hir_node_at(ctx, site):
    """the HIR call/index/assign-op node with the same span as the MIR site"""
    F = ctx.facts
    hb = F.hir_by_path.get((site["crate"], site["fn"]))
    if hb is None or not site.get("sp"):
        return None, None
    key = ("hiridx", site["crate"], site["fn"])
    if key not in ctx.cache:
        ctx.cache[key] = HirIndex(hb)
    idx = ctx.cache[key]
    want = site["sp"]
    short = site["what"].split("::")[-1]
    best = None
    for n in idx.nodes:
        if n.get("sp") != want:
            continue
        k = n.get("k")
        if site["kind"] == "call" and k == "MethodCall" and n["method"] == short:
            return idx, n
        if site["kind"] == "call" and k == "Call" and (n.get("callee") or "").endswith(short):
            return idx, n
        if site["kind"] == "assert" and k in ("Index", "AssignOp", "Binary", "Unary", "Cast"):
            best = n
    return idx, best


def _place_str(n):
    """stable string of a receiver place such as `properties` / `call.args` / `jsx_opening_element.attrs`"""
    return field_path(strip_transparent(n)) if n is not None else None


def _lit_int(n):
    n = strip_transparent(n)
    if n.get("k") == "Lit" and n.get("lit") == "int":
        return n["v"]
    return None


def _len_lower_bound(idx, node, place):
    """lower bound on place.len() implied by the conditions enclosing `node` (0 if nothing known)"""
    lb = 0
    for fact in idx.known_true(node):
        if isinstance(fact, tuple):
            continue
        f = fact
        # X.len() == n / >= n / > n
        if f.get("k") == "Binary" and f.get("op") in ("==", ">=", ">"):
            l, r = strip_transparent(f["l"]), strip_transparent(f["r"])
            if l.get("k") == "MethodCall" and l["method"] == "len" and _place_str(l["recv"]) == place:
                n = _lit_int(r)
                if n is not None:
                    lb = max(lb, n + 1 if f["op"] == ">" else n)
        # is_some() on something derived from X.get(k)
        if f.get("k") == "MethodCall" and f["method"] == "is_some":
            g = _trace_to_get(idx, f["recv"])
            if g and g[0] == place:
                lb = max(lb, g[1] + 1)
        if f.get("k") == "Unary" and f.get("op") == "!":
            inner = strip_transparent(f["e"])
            if inner.get("k") == "MethodCall" and inner["method"] == "is_empty" and _place_str(inner["recv"]) == place:
                lb = max(lb, 1)
    # enclosing `Some(..)` arm / if-let over X.get(k)
    child = node
    for p in idx.parents(node):
        if p.get("k") == "Arm" and child is p.get("body"):
            pat = p["pat"]
            if _is_some_pat(pat):
                m = idx.parent.get(id(p))
                if m is not None and m.get("k") == "Match":
                    g = _trace_to_get(idx, m["scrut"])
                    if g and g[0] == place:
                        lb = max(lb, g[1] + 1)
        child = p
    return lb


def _is_some_pat(pat):
    while pat.get("k") in ("PRef", "PBox", "PDeref"):
        pat = pat["p"]
    return pat.get("k") == "PTupleStruct" and pat.get("variant") == "Some"


def _trace_to_get(idx, n, depth=0):
    """does the Option expression n derive from `X.get(k)` / `X.get_mut(k)` / `X.first()`? -> (place, k)"""
    if depth > 10:
        return None
    n = strip_transparent(n)
    if n.get("k") == "MethodCall":
        m = n["method"]
        if m in ("get", "get_mut") and n["args"]:
            k = _lit_int(n["args"][0])
            if k is not None:
                return (_place_str(n["recv"]), k)
        if m in ("first", "first_mut", "last"):
            return (_place_str(n["recv"]), 0)
        if m in ("and_then", "map", "filter", "as_ref", "as_mut", "as_deref", "as_deref_mut", "cloned", "copied", "zip"):
            return _trace_to_get(idx, n["recv"], depth + 1)
    if n.get("k") == "Path" and n["res"].get("r") == "local":
        b = idx.binding.get(n["res"]["id"])
        if b and b["kind"] == "let" and b.get("init") is not None and not b.get("path"):
            return _trace_to_get(idx, b["init"], depth + 1)
    if n.get("k") == "Match":
        # `match X.get(k) { Some(..) => <Option>, _ => None }`: Some only comes out of arms that matched Some(..)
        g = _trace_to_get(idx, n["scrut"], depth + 1)
        if g is not None and all(_is_some_pat(a["pat"]) or _always_none(a["body"]) for a in n["arms"]):
            return g
    if n.get("k") == "If" and n.get("else") is not None:
        c = strip_transparent(n["cond"])
        if c.get("k") == "LetExpr" and _is_some_pat(c["pat"]) and _always_none(n["else"]):
            return _trace_to_get(idx, c["init"], depth + 1)
    return None


def _always_none(e):
    from .c02 import _leaves
    return all(strip_transparent(x).get("k") == "Path" and strip_transparent(x)["res"].get("variant") == "None" for x in _leaves(e))


def _search_index_of(idx, n, depth=0):
    """is the integer expression n the result of a search over place X
    (`X.iter().enumerate().find_map(..)` / `X.iter().position(..)`), bound through `Some(i)`? -> place"""
    n = strip_transparent(n)
    if n.get("k") != "Path" or n["res"].get("r") != "local":
        return None
    b = idx.binding.get(n["res"]["id"])
    if not b or b["kind"] != "let" or b.get("init") is None:
        return None
    path = b.get("path") or ()
    if not (len(path) == 1 and path[0][0] == "tfield" and path[0][2] == "Some"):
        return None
    init = strip_transparent(b["init"])
    if init.get("k") == "MethodCall" and init["method"] in ("find_map", "position", "rposition"):
        base = init["recv"]
        while strip_transparent(base).get("k") == "MethodCall" and strip_transparent(base)["method"] in ("iter", "iter_mut", "enumerate"):
            base = strip_transparent(base)["recv"]
        return _place_str(base)
    return None


MUTATORS = {"push", "pop", "remove", "insert", "clear", "truncate", "drain", "splice", "retain", "swap_remove", "append",
            "extend", "extend_from_slice", "split_off", "dedup", "resize"}


def discharge(ctx, site):
    """returns (rule, text) when a guard rule discharges the site, else None"""
    idx, n = hir_node_at(ctx, site)
    if n is None:
        return None
    what = site["what"]
    if site["kind"] == "call" and what.endswith(("core::panicking::panic_fmt", "core::panicking::panic")):
        # G6 (parser invariant, wherever the match lives): `unreachable!` in the arm `JSXAttrValue::Lit(..)` that follows the arm
        # `JSXAttrValue::Lit(Lit::Str(..))` of the same match — swc_ecma_parser only produces Lit::Str for an attribute value literal
        x = n
        while x is not None:
            par = idx.parent.get(id(x))
            if par is not None and par.get("k") == "Match":
                arms = par["arms"]
                mine = [i for i, a_ in enumerate(arms) if a_ is x or any(y is n for y in walk(a_["body"]))]
                if mine:
                    i = mine[0]
                    def is_attr_lit(p_):
                        return p_.get("k") == "PTupleStruct" and p_.get("adt") == AST + "JSXAttrValue" and p_.get("variant") == "Lit"
                    if is_attr_lit(arms[i]["pat"]) and not any(y.get("adt") == AST + "Lit" for y in walk(arms[i]["pat"])) \
                            and any(is_attr_lit(a_["pat"]) and any(y.get("adt") == AST + "Lit" and y.get("variant") == "Str" for y in walk(a_["pat"])) and not a_.get("guard")
                                    for a_ in arms[:i]):
                        return ("G6", "unreachable!() in the arm JSXAttrValue::Lit(<not Str>) after the arm JSXAttrValue::Lit(Lit::Str(..)): the parser only produces Lit::Str for an attribute value literal")
                break
            x = par
    if site["kind"] == "assert" and what == "Overflow(Add)" and n.get("k") == "Binary" and n.get("op") == "+":
        k = _lit_int(n["r"])
        lo = local_of(n["l"])
        if k is not None and lo is not None:
            for fact in idx.known_true(n):
                if isinstance(fact, tuple) and fact[0] == "not":
                    f = fact[1]
                    if f.get("k") == "Binary" and f.get("op") in (">=", ">") and local_of(f["l"]) == lo:
                        rhs = strip_transparent(f["r"])
                        bound = _lit_int(rhs)
                        if bound is None and rhs.get("k") == "Path" and rhs["res"].get("r") == "def" and isinstance(rhs["res"].get("value"), int):
                            bound = rhs["res"]["value"]
                        if bound is not None and bound + k < 2 ** 15:
                            return ("G4", "%s + %d after the early return on %s %s %d: the sum stays far below the type's maximum" % (lo[0], k, lo[0], f["op"], bound))
    if site["kind"] == "assert" and what == "Overflow(Add)" and n.get("k") == "Binary" and n.get("op") == "+":
        # G5: `i + k` for the index i of `.enumerate()` over a slice / Vec: i < len <= isize::MAX, so a small k cannot overflow usize
        k = _lit_int(n["r"])
        lo = local_of(n["l"])
        if k is not None and 0 <= k <= 2 ** 15 and lo is not None and (strip_transparent(n["l"]).get("ty") or "") == "usize":
            b = idx.binding.get(lo[1])
            if b and b["kind"] == "param" and b.get("closure") is not None and (b.get("path") or ()) and (b["path"][-1][0] in ("tfield", "tuple", "elem") or True):
                mc = idx.parent.get(id(b["closure"]))
                base = mc["recv"] if mc is not None and mc.get("k") == "MethodCall" else None
                seen_enum = False
                while base is not None and strip_transparent(base).get("k") == "MethodCall":
                    if strip_transparent(base)["method"] == "enumerate":
                        seen_enum = True
                    base = strip_transparent(base)["recv"]
                first = (b.get("path") or ((None, None, None),))[-1]
                if seen_enum and (0 in first or "0" in [str(x) for x in first]):
                    return ("G5", "%s is the index of `.enumerate()` (below the length of an in-memory sequence, at most isize::MAX): %s + %d cannot overflow" % (lo[0], lo[0], k))
            elif b and b["kind"] == "let" and b.get("path") and tuple(b["path"][-1]) == ("tuple", 0) and (b.get("init") or {}).get("k") == "Call" \
                    and ((b["init"].get("callee") or "").endswith("Iterator::next")) and b["init"].get("args"):
                # the same index bound by a `for (i, x) in X.enumerate()` loop (desugared: match next(&mut iter) { Some((i, x)) => .. })
                it = local_of(strip_transparent(b["init"]["args"][0]))
                ib = idx.binding.get(it[1]) if it else None
                chain = None
                if ib and (ib.get("init") or {}).get("k") == "Call" and (ib["init"].get("callee") or "").endswith("IntoIterator::into_iter") and ib["init"].get("args"):
                    chain = ib["init"]["args"][0]
                seen_enum = False
                outermost = True
                while chain is not None and strip_transparent(chain).get("k") == "MethodCall":
                    if strip_transparent(chain)["method"] == "enumerate" and outermost:
                        seen_enum = True
                    outermost = False
                    chain = strip_transparent(chain)["recv"]
                if seen_enum:
                    return ("G5", "%s is the index of a `for` loop over `.enumerate()` (below the length of an in-memory sequence, at most isize::MAX): %s + %d cannot overflow" % (lo[0], lo[0], k))
    if site["kind"] == "call" and n.get("k") == "MethodCall":
        m = n["method"]
        place = _place_str(n["recv"])
        if what.endswith("Vec::<T, A>::insert") and n["args"]:
            k = _lit_int(n["args"][0])
            if k == 0:
                return ("G1", "insert at constant index 0 (always <= len)")
            if k is not None and place:
                # re-insertion at an index just removed from the same vector
                for x in idx.nodes:
                    if x is n:
                        break
                    if x.get("k") == "MethodCall" and x["method"] == "remove" and _place_str(x["recv"]) == place and x["args"] and _lit_int(x["args"][0]) == k:
                        lb = _len_lower_bound(idx, n, place)
                        if lb >= k + 1:
                            return ("G2", "re-insertion at index %d right after %s.remove(%d); len >= %d was established" % (k, place, k, lb))
            if n["args"] and place and _search_index_of(idx, n["args"][0]) == place:
                return ("G3", "index produced by a search over %s itself" % place)
        if what.endswith("Vec::<T, A>::remove") and n["args"] and place:
            k = _lit_int(n["args"][0])
            if k is not None:
                lb = _len_lower_bound(idx, n, place)
                if lb >= k + 1:
                    return ("G2", "%s.remove(%d) under a condition implying len >= %d" % (place, k, lb))
                return None
            if _search_index_of(idx, n["args"][0]) == place:
                return ("G3", "index produced by a search over %s itself (enumerate/find_map or position)" % place)
        if what.endswith("Vec::<T, A>::splice") and n["args"] and place:
            rng = strip_transparent(n["args"][0])
            if rng.get("k") == "Struct" and (rng.get("adt") or "").endswith("Range"):
                fs = {f["name"]: f["e"] for f in rng["fields"]}
                a, b = fs.get("start"), fs.get("end")
                if a is not None and b is not None and _lit_int(a) == 0 and _lit_int(b) == 0:
                    return ("G1", "splice of the constant empty range 0..0 (0 <= 0 <= len always holds)")
                if a is not None and b is not None and local_of(a) and local_of(a) == local_of(b) and _search_index_of(idx, a) == place:
                    return ("G3", "empty range at an index found by a search over %s (index <= len after the removal at that index)" % place)
        if what.endswith("::unwrap") or what.endswith("::expect"):
            recv = strip_transparent(n["recv"])
            if recv.get("k") == "MethodCall" and recv["method"] in ("pop", "first", "last", "next"):
                p2 = _place_str(recv["recv"])
                if p2 and _len_lower_bound(idx, n, p2) >= 1:
                    return ("G2", "%s.%s().unwrap() under a condition implying %s is non-empty" % (p2, recv["method"], p2))
    return None


def site_key(site):
    short = site["what"]
    short = re.sub(r"^(core|alloc|std)::", "", short)
    return "%s | %s %s" % (site["fn"], site["kind"], short)


def match_table(table, site, used):
    """find a reviewed entry covering this site; entries: {fn?, fn_mac?, kind?, what, count?, reason}"""
    for i, e in enumerate(table):
        if "fn" in e and e["fn"] != site["fn"]:
            continue
        if "fn_mac" in e and e["fn_mac"] not in site["fn_mac"]:
            continue
        if "crate" in e and e["crate"] != site["crate"]:
            continue
        if e.get("what") and not site["what"].endswith(e["what"]):
            continue
        if e.get("kind") and e["kind"] != site["kind"]:
            continue
        if "count" in e:
            if used.get(i, 0) >= e["count"]:
                continue
        used[i] = used.get(i, 0) + 1
        return e
    return None


def r08_1(ctx):
    r = Rule("R08.1", "panic-site inventory: every panic-capable MIR site is discharged by a guard rule or a reviewed entry",
             "an undischarged panic site aborts the compilation for some input")
    table = load_table()
    used = {}
    seen = {}
    for site in panic_sites(ctx):
        r.saw(site["fn"])
        base = site_key(site)
        c = seen.get(base, 0)
        seen[base] = c + 1
        key = base if c == 0 else "%s #%d" % (base, c + 1)
        loc = "%s:%s" % (site["body"].get("file", "?"), (site.get("sp") or [0])[0])
        d = None
        if not site["fn_mac"]:
            d = discharge(ctx, site)
        if d:
            r.ob(key, True, loc, "%s: %s" % d)
            continue
        e = match_table(table, site, used)
        if e:
            r.ob(key, True, loc, "reviewed: " + e["reason"])
        else:
            r.ob(key, False, loc, "panic-capable site (%s %s) is neither discharged by a guard rule (G1 constant 0 insert, G2 dominating length/Some test on the same place, G3 index from a search over the same collection) nor listed in rules/c08_sites.json" % (site["kind"], site["what"]))
    return r


# ---- R08.2 recursion -----------------------------------------------------------------
def r08_2(ctx):
    r = Rule("R08.2", "recursion is structural on the input tree, or guarded", "an unguarded jump through a declaration map never terminates on a cyclic declaration")
    nodes, edges = C.call_graph(ctx)
    # only user bodies of the visitor crate
    user = {k: b for k, b in nodes.items() if k[0] == VISITOR_CRATE}
    comps = C.sccs(user, {k: {e for e in v if e in user} for k, v in edges.items() if k in user})
    F = ctx.facts
    pending = []
    for comp in comps:
        cs = set(comp)
        rec = len(comp) > 1 or any(c in edges.get(c, ()) for c in comp)
        if not rec:
            continue
        roots = sorted({(k[0], _root(nodes[k])) for k in comp})
        # the traversal SCC (re-entrancy through swc_ecma_visit): depth is the depth of the AST
        if any("VisitMut>::visit_mut_" in p for _, p in roots):
            kind = "traversal"
        else:
            kind = "local"
        for crate, root in roots:
            hb = F.hir_by_path.get((crate, root))
            if hb is None or hb.get("mac"):
                continue
            r.saw(root)
            idx = HirIndex(hb)
            root_paths = {p for _, p in roots}
            for n in idx.nodes:
                callee = None
                args = []
                if n.get("k") in ("MethodCall", "Call") and n.get("callee") in root_paths:
                    callee = n["callee"]
                    args = n["args"]
                if callee is None:
                    continue
                cls = [(i, _classify_progress(idx, hb, a)) for i, a in enumerate(args) if _is_tree_arg(a)]
                if not cls:
                    continue
                pending.append((root, hb, idx, n, callee, cls))
    # a parameter position that is a strict sub-term at every recursive call of a callee carries the measure
    structural_pos = {}
    for root, hb, idx, n, callee, cls in pending:
        pos = {i for i, c in cls if c[0] == "structural"}
        structural_pos[callee] = pos if callee not in structural_pos else (structural_pos[callee] & pos)
    for root, hb, idx, n, callee, cls in pending:
        loc = C.mloc(hb, n)
        if structural_pos.get(callee):
            key = "%s -> %s via %s" % (root, callee.split("::")[-1], "/".join(sorted({c[1] for i, c in cls if i in structural_pos[callee]})))
            r.ob(key, True, loc, "argument %s is a strict sub-term of the caller's own argument at every recursive call of this callee" % sorted(structural_pos[callee]))
            continue
        kinds = {c[0] for i, c in cls}
        key = "%s -> %s via %s" % (root, callee.split("::")[-1], "/".join(sorted({c[1] for i, c in cls if c[0] != "structural"}) or {"sub-term"}))
        if kinds == {"structural"}:
            r.ob(key, True, loc, "progress argument is a strict sub-term of the caller's own argument")
        elif "jump" in kinds:
            g = _jump_guard(idx, n) or _entry_gate(ctx, hb["crate"], callee)
            if g:
                r.ob(key, True, loc, "jump through a declaration map, guarded by " + g)
            else:
                r.ob(key, False, loc, "recursive call on a type obtained by a lookup / constructed node / another resolver's result (not a sub-term of the argument) with no visited-set or depth guard: a cyclic declaration recurses until the stack overflows")
        else:
            r.ob(key, False, loc, "recursive call passes its own parameter unchanged: no progress")
    # de-duplicate keys
    seen = {}
    for o in r.obs:
        c = seen.get(o["key"], 0)
        seen[o["key"]] = c + 1
        if c:
            o["key"] += " #%d" % (c + 1)
    return r


def _is_tree_arg(a):
    t = (a.get("ty") or "")
    return AST in t and not t.startswith("&mut alloc::vec::Vec<resolve_type")


def _classify_progress(idx, hb, a, depth=0):
    """('structural'|'jump'|'same', description)"""
    n = strip_transparent(a)
    if depth > 8:
        return ("jump", "deep")
    if n.get("k") == "Path" and n["res"].get("r") == "local":
        b = idx.binding.get(n["res"]["id"])
        if b is None:
            return ("jump", "unbound")
        if b["kind"] == "param":
            if b.get("closure") is not None:
                # item of an iterator over ...: look at the receiver of the adapter
                par = idx.parent.get(id(b["closure"]))
                if par is not None and par.get("k") == "MethodCall":
                    base = par["recv"]
                    while strip_transparent(base).get("k") == "MethodCall" and strip_transparent(base)["method"] in (
                            "iter", "into_iter", "iter_mut", "enumerate", "filter_map", "map", "filter", "flat_map", "rev", "zip"):
                        bs = strip_transparent(base)
                        if bs["method"] in ("filter_map", "map", "flat_map") and bs["args"] and bs["args"][0].get("k") == "Closure":
                            inner = _tail(bs["args"][0]["body"])
                            c = _classify_progress(idx, hb, inner, depth + 1)
                            if c[0] != "structural":
                                return c
                        base = bs["recv"]
                    c = _classify_progress(idx, hb, base, depth + 1)
                    return ("structural", "item of " + c[1]) if c[0] in ("structural", "same") else c
                return ("jump", "closure param")
            return ("same", "param " + n["res"]["name"])
        if b["kind"] == "let":
            path = b.get("path") or ()
            init = b.get("init")
            if init is None:
                return ("jump", "no init")
            c = _classify_progress(idx, hb, init, depth + 1)
            if path and any(p[0] in ("field", "tfield") and (p[2] != "Some") for p in path):
                # destructured a real field out of it
                if c[0] in ("same", "structural"):
                    return ("structural", "field of " + c[1])
                return c
            return c
    if n.get("k") == "Field":
        c = _classify_progress(idx, hb, n["e"], depth + 1)
        if c[0] in ("same", "structural"):
            return ("structural", "field of " + c[1])
        return c
    if n.get("k") == "MethodCall":
        m = n["method"]
        rty = (n["recv"].get("tya") or n["recv"].get("ty") or "")
        if m in ("get", "get_mut") and ("HashMap" in rty):
            fp = field_path(strip_transparent(n["recv"])) or "map"
            return ("jump", "lookup in " + fp)
        if m in ("first", "get", "iter", "as_ref", "as_deref", "and_then", "map", "zip", "unwrap_or", "first_mut"):
            return _classify_progress(idx, hb, n["recv"], depth + 1)
        callee = n.get("callee") or ""
        return ("jump", "result of " + callee.split("::")[-1])
    if n.get("k") in ("Ctor", "Struct"):
        return ("jump", "constructed " + (n.get("adt") or "").split("::")[-1])
    if n.get("k") == "Call":
        cal = n.get("callee") or "?"
        # the desugaring of `for item in xs`: item = next(&mut into_iter(xs))
        if cal.endswith("iterator::Iterator::next") and n["args"]:
            c = _classify_progress(idx, hb, n["args"][0], depth + 1)
            return ("structural", "item of " + c[1]) if c[0] in ("structural", "same") else c
        if cal.endswith("IntoIterator::into_iter") and n["args"]:
            return _classify_progress(idx, hb, n["args"][0], depth + 1)
        return ("jump", "result of " + cal.split("::")[-1])
    return ("jump", n.get("k", "?"))


def _tail(n):
    while n.get("k") == "Block" and n.get("expr") is not None:
        n = n["expr"]
    return n


GUARD_METHODS = {"insert", "contains", "replace"}


def _is_depth_gate(ctx, crate, path):
    """local fn G is a depth gate: compares `self.<f>.get()` (or self.<f>) with a constant, returns early
    on the exceeding branch, and stores `<that value> + 1` back"""
    key = ("depth_gate", crate, path)
    if key in ctx.cache:
        return ctx.cache[key]
    res = None
    hb = ctx.facts.hir_by_path.get((crate, path))
    if hb is not None:
        idx = HirIndex(hb)

        def counter_field(e, depth=0):
            e = strip_transparent(e)
            if e.get("k") == "MethodCall" and e["method"] == "get" and not e["args"]:
                return field_path(strip_transparent(e["recv"]))
            if e.get("k") == "Field":
                return field_path(e)
            if e.get("k") == "Path" and e["res"].get("r") == "local" and depth < 4:
                b = idx.binding.get(e["res"]["id"])
                if b and b["kind"] == "let" and b.get("init") is not None and not b.get("path"):
                    return counter_field(b["init"], depth + 1)
            return None
        bound_field = None
        for n in idx.nodes:
            if n.get("k") == "If":
                for c in conjuncts(n["cond"]):
                    if c.get("k") == "Binary" and c.get("op") in (">=", ">"):
                        f = counter_field(c["l"])
                        rhs = strip_transparent(c["r"])
                        is_const = (rhs.get("k") == "Lit") or (rhs.get("k") == "Path" and rhs["res"].get("r") == "def" and "value" in rhs["res"])
                        if f and f.startswith("self.") and is_const and any(x.get("k") == "Ret" for x in walk(n["then"])):
                            bound_field = f
        if bound_field:
            for n in idx.nodes:
                if n.get("k") == "MethodCall" and n["method"] == "set" and field_path(strip_transparent(n["recv"])) == bound_field and n["args"]:
                    a = strip_transparent(n["args"][0])
                    if a.get("k") == "Binary" and a.get("op") == "+" and counter_field(a["l"]) == bound_field:
                        res = "depth bound on %s in %s" % (bound_field, path.split("::")[-1])
                if n.get("k") == "AssignOp" and n.get("op") == "+=" and field_path(strip_transparent(n["l"])) == bound_field:
                    res = "depth bound on %s in %s" % (bound_field, path.split("::")[-1])
    ctx.cache[key] = res
    return res


def _entry_gate(ctx, crate, fn_path):
    """fn begins with `let Some(_g) = self.GATE(..) else { return .. }` / `self.GATE(..)?` before anything else recursive"""
    hb = ctx.facts.hir_by_path.get((crate, fn_path))
    if hb is None:
        return None
    body = hb["body"]
    if body.get("k") != "Block":
        return None
    for st in body["stmts"]:
        if st.get("k") == "Let" and st.get("init") is not None:
            init = st["init"]
            gate = None
            for x in walk(init):
                if x.get("k") in ("MethodCall", "Call") and x.get("callee") and (crate, x["callee"]) in ctx.facts.hir_by_path:
                    g = _is_depth_gate(ctx, crate, x["callee"])
                    if g:
                        gate = g
            if gate and not any(x.get("k") == "PBind" for x in walk(st["pat"])):
                # `let _ = self.GATE(..)?`: the guard is dropped at once, so the counter is back down before anything recurses
                return None
            if gate:
                # let-else (diverging else) or `?` (Try desugar match)
                if st.get("else") is not None or any(x.get("k") == "Match" and "TryDesugar" in (x.get("src") or "") for x in walk(init)):
                    return gate + " (entry gate of %s)" % fn_path.split("::")[-1]
        # any statement that already recurses before the gate defeats it
        for x in walk(st):
            if x.get("k") in ("MethodCall", "Call") and x.get("callee") == fn_path:
                return None
    return None


def _jump_guard(idx, call):
    """is the recursive call control-dependent on a set insert/contains or a depth comparison?"""
    for fact in idx.known_true(call):
        f = fact[1] if isinstance(fact, tuple) else fact
        for x in walk(f):
            if x.get("k") == "MethodCall" and x["method"] in GUARD_METHODS:
                rty = (x["recv"].get("tya") or x["recv"].get("ty") or "")
                if "Set<" in rty or "Vec<" in rty:
                    return "%s() on %s" % (x["method"], (field_path(strip_transparent(x["recv"])) or "a set"))
            if x.get("k") == "Binary" and x.get("op") in ("<", "<=", ">", ">="):
                for side in (x["l"], x["r"]):
                    fp = field_path(strip_transparent(side)) or ""
                    if "depth" in fp:
                        return "depth bound on " + fp
            # (a test of the depth gate's *result* does not count: the guard object has to stay alive in a binding, see _entry_gate)
    return None


# ---- R08.3 determinism ---------------------------------------------------------------
HASH_ITER = re.compile(r"std::collections::hash::(map::HashMap|set::HashSet)::<[^>]*>::(iter|iter_mut|keys|values|values_mut|into_keys|into_values|drain|retain|extract_if|difference|union|intersection|symmetric_difference)$")
HASH_INTO_ITER = re.compile(r"IntoIterator for (&(mut )?)?std::collections::hash::(map::HashMap|set::HashSet)")
FORBIDDEN_PATHS = re.compile(r"^(std::time::|std::env::|std::thread::(current|sleep|spawn)|std::process::id|std::fs::|std::net::|std::io::stdin|rand::|getrandom::|std::hash::random::|std::collections::hash::map::RandomState|fastrand::|std::sys::random|std::random::)")


def r08_3(ctx):
    r = Rule("R08.3", "no dependence on hash iteration order, time, environment, randomness or addresses",
             "output that depends on such a source is not a function of (source, options)")
    F = ctx.facts
    n_calls = 0
    hits = []
    for b in F.mir:
        for i, t in calls(b):
            n_calls += 1
            name = callee_name(t)
            full = t.get("callee_full", "")
            loc = C.mloc(b, t)
            if HASH_ITER.search(name) or HASH_ITER.search(t.get("callee", "")):
                hits.append(("%s iterates a std hash container (%s)" % (_root(b), name.split("::")[-1]), loc, "iteration order of std HashMap/HashSet is unspecified; use BTreeMap/IndexMap or sort"))
            elif HASH_INTO_ITER.search(name) or (name.endswith("IntoIterator>::into_iter") and re.search(r"hash::(map::HashMap|set::HashSet)", t.get("self_ty", ""))):
                hits.append(("%s iterates a std hash container (into_iter)" % _root(b), loc, "iteration order of std HashMap/HashSet is unspecified"))
            elif FORBIDDEN_PATHS.search(name) or FORBIDDEN_PATHS.search(t.get("callee", "")):
                hits.append(("%s calls %s" % (_root(b), name), loc, "time / environment / randomness source"))
            elif name.endswith("fmt::Pointer>::fmt") or "fmt::rt::Argument::<'_>::new_pointer" in name:
                hits.append(("%s formats an address" % _root(b), loc, "addresses differ between runs"))
        for blk in b["blocks"]:
            for s in blk["stmts"]:
                if s["k"] == "assign" and s["rv"].get("rk") == "cast" and "PointerExposeProvenance" in s["rv"].get("kind", ""):
                    if not (s.get("mac")):
                        hits.append(("%s casts a pointer to an integer" % _root(b), C.mloc(b, s), "addresses differ between runs"))
                if s["k"] == "assign" and s["rv"].get("rk") == "tls":
                    hits.append(("%s reads a thread-local" % _root(b), C.mloc(b, s), "hidden state"))
    for key, loc, why in hits:
        r.ob(key, False, loc, why)
    r.ob("scan of all call terminators for hash iteration / time / env / random / address sources", True, "-",
         "%d call terminators in %d bodies scanned, %d hit(s)" % (n_calls, len(F.mir), len(hits)))
    # statics with interior mutability / static mut (items)
    n_static = 0
    for it in F.items:
        if it.get("kind") == "static":
            n_static += 1
            if it.get("mac"):
                continue
            bad = it.get("mutbl") or re.search(r"(Cell|Mutex|RwLock|Atomic|OnceCell|Lazy|OnceLock)", it.get("ty", ""))
            r.ob("static %s" % it["path"], not bad, "%s:%s" % (it.get("file"), it["sp"][0]),
                 "mutable / interior-mutable static: state that survives between runs in one process" if bad else "immutable static")
    r.ob("no hand-written mutable statics", True, "-", "%d static item(s) in both crates, none hand-written with interior mutability" % n_static)
    # order-bearing fields of the visitor are ordered containers
    fields = F.struct_fields("VueJsxTransformVisitor") or []
    for f in fields:
        if "hash::" in f["ty"]:
            # lookups only: checked above (no iteration); record
            r.ob("visitor field %s is a hash container used for lookups only" % f["name"], True, "-", f["ty"] + ": no iteration call on this type in either crate")
    return r


# ---- R08.4 loops -----------------------------------------------------------------------
def r08_4(ctx):
    r = Rule("R08.4", "every loop is driven by Iterator::next over finite data", "a loop whose exit does not depend on an iterator can spin forever")
    F = ctx.facts
    for b in F.mir:
        rootb = F.mir_by_path.get((b["crate"], _root(b))) or b
        if rootb.get("mac"):
            continue
        g = C.cfg_of(ctx, b)
        for (a, h) in g.back_edges():
            # natural loop body
            body = {h, a}
            st = [a]
            while st:
                x = st.pop()
                for p in g.pred[x]:
                    if p not in body and g.dominates(h, p):
                        body.add(p)
                        st.append(p)
            ok = False
            for blk_i in body:
                t = b["blocks"][blk_i].get("term") or {}
                if t.get("k") == "call" and re.search(r"Iterator>::next$|Iterator::next$", callee_name(t)):
                    ok = True
            r.ob("loop in %s (header bb%d)" % (b["path"], h), ok, C.mloc(b, b["blocks"][h].get("term") or b),
                 "exit driven by Iterator::next" if ok else "loop without an Iterator::next in its body: termination not evident")
    if not r.obs:
        r.ob("no hand-written loops", True, "-", "no CFG back edge in hand-written bodies")
    return r


CLIPPY_LINTS = ["unwrap_used", "expect_used", "indexing_slicing", "panic", "unreachable", "arithmetic_side_effects", "iter_over_hash_type", "string_slice"]


def clippy_crosscheck(ctx):
    """second opinion (thorough): every site clippy's restriction lints report must be in the MIR inventory"""
    import subprocess
    from .. import extract
    r = Rule("R08.X", "cross-check: sites reported by clippy's restriction lints (unwrap/expect/indexing/panic/unreachable/arithmetic/hash iteration) are all in the MIR inventory",
             "an inventory that misses a site clippy sees is incomplete")
    env = dict(os.environ, CARGO_TARGET_DIR=os.path.join(extract.CACHE, "clippy-target"), CARGO_NET_OFFLINE="true")
    cmd = ["cargo", "+nightly", "clippy", "--offline", "--workspace", "--message-format=json", "--", "-A", "clippy::all"]
    for l in CLIPPY_LINTS:
        cmd += ["-W", "clippy::" + l]
    # clippy must actually re-lint the members
    import glob, shutil
    for m in extract.MEMBERS:
        for d in glob.glob(os.path.join(env["CARGO_TARGET_DIR"], "debug", ".fingerprint", m + "-*")):
            shutil.rmtree(d, ignore_errors=True)
    pr = subprocess.run(cmd, cwd=extract.REPO, env=env, capture_output=True, text=True)
    if pr.returncode != 0:
        r.ob("clippy ran", False, "-", "cargo clippy failed: " + pr.stderr[-400:])
        return r
    csites = []
    for line in pr.stdout.splitlines():
        try:
            d = json.loads(line)
        except ValueError:
            continue
        if d.get("reason") != "compiler-message":
            continue
        m = d["message"]
        code = (m.get("code") or {}).get("code") or ""
        if code.startswith("clippy::") and code[8:] in CLIPPY_LINTS:
            sp = [x for x in m["spans"] if x["is_primary"]]
            if sp:
                csites.append((code[8:], sp[0]["file_name"], sp[0]["line_start"], sp[0]["line_end"]))
    inv = {}
    for site in panic_sites(ctx):
        f = site["body"].get("file", "?")
        sp = site.get("sp") or [0, 0, 0, 0]
        inv.setdefault(f, []).append((sp[0], sp[2], site))
    for code, f, l0, l1 in sorted(set(csites)):
        hit = [s for (a, b, s) in inv.get(f, []) if not (b < l0 or a > l1)]
        r.ob("clippy::%s at %s:%d is in the inventory" % (code, f, l0), bool(hit), "%s:%d" % (f, l0),
             "inventory site: %s" % site_key(hit[0]) if hit else "clippy reports a panic-capable construct here that the MIR inventory does not contain")
    r.ob("clippy produced diagnostics to compare", len(csites) > 0, "-", "%d clippy site(s), %d inventory site(s)" % (len(set(csites)), sum(len(v) for v in inv.values())))
    return r


def rules(ctx):
    out = [r08_1, r08_2, r08_3, r08_4]
    if ctx.tier == "thorough":
        from . import controls
        out.append(controls.control_rule([
            ("R08.1", r08_1, ["panic_sites"]),
            ("R08.2", r08_2, ["no_progress"]),
            ("R08.3", r08_3, ["hash_map_iteration", "hash_set_into_iter", "clock", "environment", "address", "COUNTER"]),
            ("R08.4", r08_4, ["spin"]),
        ]))
        out.append(clippy_crosscheck)
    return out


EXPLANATION = (
    "R08.1 enumerates every panic-capable MIR site of both crates (Assert terminators except the debug-only pointer checks; calls to "
    "core::panicking::*, unwrap/expect, Vec::remove/insert/splice/..., Index impls, RefCell borrows, ScopedKey::with, ...) and requires each "
    "to be discharged by a guard rule recognised on the typed HIR (G1 insert at constant 0; G2 a condition on the same place that implies the "
    "needed length / Some; G3 index produced by a search over the same collection) or by an entry of rules/c08_sites.json with its reason; any "
    "new or no-longer-guarded site is reported. R08.2 classifies the progress argument of every recursive call of local SCCs (structural "
    "sub-term vs jump through a lookup / constructed node; jumps need a visited-set or depth guard). R08.3 scans all call terminators for hash "
    "iteration, time, env, randomness, address formatting, pointer->int casts, thread-locals and mutable statics. R08.4 requires every CFG back "
    "edge's loop to contain Iterator::next."
)
ASSUMPTIONS = [
    "std/indexmap/regex functions not matched by the panic-callee pattern do not panic for any argument (allocation failure excluded)",
    "JSX identifiers produced by swc_ecma_parser are non-empty; JSX attribute literal values are strings",
    "HANDLER is set by the plugin runtime / every SWC harness before the pass runs",
    "recursion on the input tree is bounded by the depth of the AST the parser produced (native stack depth for adversarially deep input is not analysed)",
    "Mark::new()/private_ident! numbering is deterministic within a fresh GLOBALS scope (SWC)",
]
TRUSTED = ["rustc nightly HIR/MIR", "documented panics of std/indexmap APIs", "swc parser invariants", "reviewed table rules/c08_sites.json"]
LEVEL = "other"
LEVEL_TEXT = ("Complete inventory (for the current tree) of panic-capable sites, recursion jumps, nondeterminism sources and loops in the "
              "compiler's resolved program, each discharged by a recognised guard or a reviewed reason; a new or unguarded site is a reported "
              "violation (ratchet). Does not bound native stack depth on adversarially deep inputs.")
LEVEL_NOTE = ("Trusted: rustc MIR/HIR; the list of panicking std callees; parser invariants behind the reviewed entries (rules/c08_sites.json). "
              "Known finding: unguarded recursion through type alias / interface maps (stack overflow on circular types).")
TECHNIQUE = "MIR panic-site inventory + HIR guard recognition, call-graph SCC progress classification, resolved-callee denylist scan, CFG back-edge check"
