"""C13 — patch flags and dynamic-prop lists are sound update hints."""
import re
from ..facts import AST, VISITOR_CRATE, walk, walk_with_parents, strip_transparent, field_path, const_str, local_of
from ..engine import Rule
from ..cfg import calls, callee_name, place_of, op_const
from . import common as C
from .hirflow import HirIndex, conjuncts, disjuncts
from .hirtext import expr_str, pat_str
from .mirflow import self_field_of
from .influence import flow_of, switch_fields, controlling_fields
from .state import first_field

VUE_PATCH_FLAGS = {"TEXT": 1, "CLASS": 2, "STYLE": 4, "PROPS": 8, "FULL_PROPS": 16, "HYDRATE_EVENTS": 32, "STABLE_FRAGMENT": 64,
                   "KEYED_FRAGMENT": 128, "UNKEYED_FRAGMENT": 256, "NEED_PATCH": 512, "DYNAMIC_SLOTS": 1024, "HOISTED": -1, "BAIL": -2}
VUE_SLOT_FLAGS = {"Stable": 1, "Dynamic": 2}


def r13_1(ctx):
    r = Rule("R13.1", "flag constants equal Vue's (PatchFlags, SlotFlags)", "a wrong constant is a wrong hint for every element")
    found = {}
    for it in ctx.facts.items:
        if it["crate"] == VISITOR_CRATE and it.get("kind") == "impl" and it.get("self_ty", "").endswith("PatchFlags"):
            for a in it.get("assoc", []):
                if a["dk"].startswith("AssocConst") and "value" in a:
                    found[a["name"]] = a["value"]
    for name, want in VUE_PATCH_FLAGS.items():
        got = found.get(name)
        if got is None and name in ("TEXT", "STABLE_FRAGMENT", "KEYED_FRAGMENT", "UNKEYED_FRAGMENT", "DYNAMIC_SLOTS", "HOISTED", "BAIL"):
            r.ob("PatchFlags::%s" % name, True, "-", "not defined (unused by the transform)")
        else:
            r.ob("PatchFlags::%s" % name, got == want, "-", "%s (Vue: %s)" % (got, want))
    for it in ctx.facts.items:
        if it["crate"] == VISITOR_CRATE and it.get("kind") == "enum" and it["path"].endswith("SlotFlag"):
            got = {v["name"]: v.get("discr") for v in it["variants"]}
            for name, want in VUE_SLOT_FLAGS.items():
                r.ob("SlotFlag::%s" % name, got.get(name) == want, "-", "%s (Vue: %s)" % (got.get(name), want))
            extra = set(got) - set(VUE_SLOT_FLAGS)
            for e in extra:
                r.ob("SlotFlag::%s" % e, got[e] in (1, 2, 3), "-", "extra variant %s = %s" % (e, got[e]))
    return r


NEG_USES = re.compile(r"patch_flags::_::<impl patch_flags::PatchFlags>::(all|from_bits|from_bits_truncate|from_bits_retain|complement|toggle|symmetric_difference|from_name|set)$|Not for patch_flags::PatchFlags>::not$")


def r13_2(ctx):
    r = Rule("R13.2", "negative (hoist/bail) flags are unreachable: PatchFlags values are built from empty() by insert of positive constants only",
             "a negative flag makes Vue skip patching the vnode")
    n = 0
    for b in ctx.facts.hir:
        if b["crate"] != VISITOR_CRATE or b.get("mac"):
            continue
        for node in walk(b["body"]):
            if node.get("k") == "Path" and node["res"].get("r") == "def" and (node["res"].get("path") or "").startswith("patch_flags::PatchFlags::"):
                nm = node["res"]["path"].split("::")[-1]
                n += 1
                val = node["res"].get("value")
                ok = isinstance(val, int) and val > 0
                c = sum(1 for o in r.obs if o["key"].startswith("%s uses PatchFlags::%s" % (b["path"], nm)))
                r.ob("%s uses PatchFlags::%s" % (b["path"], nm) + ("" if not c else " #%d" % (c + 1)), ok, C.mloc(b, node), "constant %s" % val if ok else "a non-positive flag constant (%s) is used" % val)
            if node.get("k") in ("Call", "MethodCall") and NEG_USES.search(node.get("callee") or ""):
                r.ob("%s calls %s" % (b["path"], (node.get("callee") or "").split("::")[-1]), False, C.mloc(b, node), "this operation can produce bits that were never inserted (including the negative flags)")
            r.saw(b["path"])
    r.ob("uses of PatchFlags constants found", n > 0, "-", "%d use(s)" % n)
    return r


# ---- the attribute fold ------------------------------------------------------------------------
def _fold_closure(hb):
    """the per-attribute step of the attribute builder: the closure of `attrs.iter().fold(..)`, or the body of a `for` loop over the
    attributes presented as such a closure (`{"k": "Closure", "body": .., "params": [loop pattern], "loop": True}`)"""
    for n in walk(hb["body"]):
        if n.get("k") == "MethodCall" and n["method"] == "fold" and len(n["args"]) == 2 and n["args"][1].get("k") == "Closure":
            return n["args"][1]
    from .c16 import _is_for_loop
    for n in walk(hb["body"]):
        if not _is_for_loop(n):
            continue
        sc = strip_transparent(n["scrut"])
        it = sc["args"][0] if sc.get("args") else None
        ity = (strip_transparent(it).get("ty") or "") if it is not None else ""
        if "JSXAttrOrSpread" not in ity:
            continue
        # loop { match next(&mut iter) { None => break, Some(pat) => body } }
        for m in walk(n["arms"][0]["body"]):
            if m.get("k") == "Match" and len(m.get("arms", [])) == 2:
                some = [a for a in m["arms"] if pat_str(a["pat"]).startswith("Some(")]
                if some:
                    a = some[0]
                    pats = a["pat"].get("pats") or []
                    return {"k": "Closure", "body": a["body"], "params": pats[:1], "sp": n.get("sp"), "loop": True, "ty": "loop"}
    return None


def _top_arms(closure):
    """[(label, arm_node)] of the closure's main match over JSXAttrOrSpread, directive arms expanded"""
    out = []
    body = closure["body"]
    main = None
    for n in walk(body):
        if n.get("k") == "Match" and (strip_transparent(n["scrut"]).get("ty") or "").endswith("JSXAttrOrSpread"):
            main = n
            break
    if main is None:
        return out
    for arm in main["arms"]:
        lab = pat_str(arm["pat"]) + (" [guard]" if arm.get("guard") is not None else "")
        # a nested match over the parsed directive?
        inner = None
        for n in walk(arm["body"]):
            if n.get("k") == "Match" and (strip_transparent(n["scrut"]).get("ty") or "").endswith("directive::Directive"):
                inner = n
                break
        if inner is not None:
            for a2 in inner["arms"]:
                out.append(("directive " + pat_str(a2["pat"]), a2))
        else:
            out.append((lab, arm))
    return out


def _root_local(idx, node, depth=0):
    lo = local_of(node)
    if lo is None or depth > 8:
        return lo
    b = idx.binding.get(lo[1])
    if b and b["kind"] == "let" and not b.get("path") and b.get("init") is not None:
        inner = _root_local(idx, b["init"], depth + 1)
        if inner is not None:
            return inner
    return lo


def _str_of(idx, node):
    """('const', s) | ('local', (name,id)) | ('fmt', [..]) | None for a string-ish expression"""
    from .symprov import find_format_call, format_parts
    n = strip_transparent(node)
    s = const_str(n)
    if s is not None:
        return ("const", s)
    if n.get("k") == "Call" and (n.get("callee") or "").endswith("::from") and n["args"]:
        return _str_of(idx, n["args"][0])
    fc = find_format_call(n)
    if fc is not None:
        parts = format_parts(fc) or []
        out = []
        for k, v in parts:
            out.append(("lit", v) if k == "lit" else ("arg", _root_local(idx, v)))
        return ("fmt", tuple(out))
    lo = _root_local(idx, n)
    if lo is not None:
        b = idx.binding.get(lo[1])
        if b and b["kind"] == "let" and b.get("init") is not None and not b.get("path"):
            inner = _str_of(idx, b["init"])
            if inner and inner[0] in ("const", "fmt"):
                return inner
        return ("local", lo)
    return None


def _quote_str_arg(node):
    """argument of a quote_str!(..) expansion: the `value` of the Str literal it builds"""
    for n in walk(node):
        if n.get("k") == "Struct" and n.get("adt") == AST + "Str":
            v = {f["name"]: f["e"] for f in n["fields"]}.get("value")
            if v is not None:
                if v.get("k") == "MethodCall" and v["method"] == "into" and not v["args"]:
                    return v["recv"]
                return v
    return None


def _cond_keys(idx, node, stop):
    """guards between `node` and the enclosing arm `stop`: set of canonical strings"""
    out = set()
    child = node
    for p in idx.parents(node):
        if p is stop:
            break
        k = p.get("k")
        if k == "If":
            if child is p.get("then"):
                out |= {expr_str(c) for c in conjuncts(p["cond"])}
            elif child is p.get("else"):
                out |= {"!" + expr_str(c) for c in disjuncts(p["cond"])}
        elif k == "Arm" and child is p.get("body"):
            m = idx.parent.get(id(p))
            scr = expr_str(m["scrut"]) if m is not None and m.get("k") == "Match" else "?"
            out.add("%s ~ %s" % (scr, pat_str(p["pat"])))
            if p.get("guard") is not None:
                out |= {expr_str(c) for c in conjuncts(p["guard"])}
        child = p
    return out


def r13_3(ctx):
    r = Rule("R13.3", "coverage pairing in the attribute fold: non-constant props are named in the dynamic-prop set (or flagged class/style, or reserved); computed keys / spreads / merge arguments set FULL_PROPS; the set names only emitted props",
             "an uncovered dynamic prop is never patched; a listed name that is not a prop is a wrong hint")
    hb = C.role_or_fail(ctx, r, "attr_fold")
    if not hb:
        return r
    r.saw(hb["path"])
    cl = _fold_closure(hb)
    if cl is None:
        r.ob("attribute fold closure found", False, C.mloc(hb, hb), "no `.fold(.., |..| ..)` over the attributes")
        return r
    idx = HirIndex(hb)
    arms = _top_arms(cl)
    if len(arms) < 4:
        r.ob("attribute fold arms found", False, C.mloc(hb, cl), "expected directive / plain / spread arms, found %d" % len(arms))
        return r
    for label, arm in arms:
        emissions = []      # (kind, keydesc, node, value_node)
        inserts = []        # (strdesc, node)
        dyn_sets = []       # assignment nodes has_dynamic_keys = true
        merge_pushes = []
        for n in walk(arm["body"]):
            k = n.get("k")
            if k == "Struct" and n.get("adt") == AST + "KeyValueProp":
                fs = {f["name"]: f["e"] for f in n["fields"]}
                key, value = fs.get("key"), fs.get("value")
                # only props pushed to the props list (not e.g. directive internals): the struct sits under a push on Vec<PropOrSpread>
                ps = idx.parents(n)
                if not any(p.get("k") == "MethodCall" and p["method"] in ("push", "extend") and "PropOrSpread" in (strip_transparent(p["recv"]).get("ty") or "") for p in ps):
                    continue
                for pn in walk(key):
                    if pn.get("k") == "Ctor" and pn.get("adt") == AST + "PropName":
                        if pn.get("variant") == "Computed":
                            emissions.append(("computed", None, pn, value))
                        elif pn.get("variant") in ("Str", "Ident"):
                            a = _quote_str_arg(pn)
                            emissions.append(("named", _str_of(idx, a) if a is not None else None, pn, value))
            if k == "MethodCall" and n["method"] == "insert" and "IndexSet" in (strip_transparent(n["recv"]).get("ty") or "") and n["args"]:
                inserts.append((_str_of(idx, n["args"][0]), n))
            if k == "Assign":
                lo = local_of(n["l"])
                if lo and lo[0] == "has_dynamic_keys":
                    dyn_sets.append(n)
            if k == "MethodCall" and n["method"] == "push" and local_of(n["recv"]) and local_of(n["recv"])[0] == "merge_args":
                # a flush of pending props is not an emission of the current attribute, but it still moves props behind a merge
                merge_pushes.append(n)
            if k == "Ctor" and n.get("adt") == AST + "PropOrSpread" and n.get("variant") == "Spread":
                merge_pushes.append(n)
            if k == "MethodCall" and n["method"] == "extend_from_slice" and "PropOrSpread" in (strip_transparent(n["recv"]).get("ty") or ""):
                merge_pushes.append(n)
        # (1) named emissions need coverage in the same arm
        for kind, kd, pn, value in emissions:
            if kind != "named":
                continue
            key = "%s: prop %s is covered" % (label, _kd(kd))
            c = sum(1 for o in r.obs if o["key"].startswith(key))
            if c:
                key += " #%d" % (c + 1)
            # constant values need no coverage: generated modifier objects / string literal attribute values are handled by the constancy test
            vexempt = _value_is_generated_constant(idx, value)
            covered = any(_same_str(kd, idesc) for idesc, _n in inserts)
            if vexempt:
                r.ob(key, True, C.mloc(hb, pn), "value is a generated constant object (%s)" % vexempt)
            elif covered:
                r.ob(key, True, C.mloc(hb, pn), "dynamic_props.insert of the same name in this arm")
            else:
                r.ob(key, False, C.mloc(hb, pn), "prop %s is emitted with a possibly changing value but never inserted into the dynamic-prop set in this arm" % _kd(kd))
        # (2) every insert names an emitted prop
        for idesc, n in inserts:
            key = "%s: dynamic-prop name %s is an emitted prop" % (label, _kd(idesc))
            c = sum(1 for o in r.obs if o["key"].startswith(key))
            if c:
                key += " #%d" % (c + 1)
            ok = any(kind == "named" and _same_str(kd, idesc) for kind, kd, pn, value in emissions)
            r.ob(key, ok, C.mloc(hb, n), "emitted in the same arm" if ok else "no prop with this key is emitted in this arm")
        # (3) computed keys / merge arguments / spreads imply has_dynamic_keys = true under no stronger guard
        needs = [("computed key", pn) for kind, kd, pn, value in emissions if kind == "computed"] + [("merge argument / spread", n) for n in merge_pushes]
        for what, n in needs:
            key = "%s: %s sets FULL_PROPS" % (label, what)
            c = sum(1 for o in r.obs if o["key"].startswith(key))
            if c:
                key += " #%d" % (c + 1)
            ce = _cond_keys(idx, n, arm)
            ok = False
            for a in dyn_sets:
                if const_bool(a["r"]) is True and _cond_keys(idx, a, arm) <= ce:
                    ok = True
            r.ob(key, ok, C.mloc(hb, n), "has_dynamic_keys = true under the same or a weaker guard" if ok else
                 "no `has_dynamic_keys = true` covers this %s (guards %s)" % (what, sorted(ce)))
    # the name-table of the plain attribute arm
    for n in walk(cl["body"]):
        if n.get("k") == "Match" and expr_str(n["scrut"]).endswith("attr_name") and any(a.get("guard") is not None for a in n["arms"]):
            reserved = set()
            for a in n["arms"]:
                ps = pat_str(a["pat"])
                body_s = expr_str(a["body"])
                g = expr_str(a["guard"]) if a.get("guard") is not None else ""
                names = set(re.findall(r"'([^']*)'", ps))
                if "has_class_binding = True" in body_s or "has_style_binding = True" in body_s:
                    want = "!is_component"
                    r.ob("plain attribute: %s uses its bit only on elements" % ps, g == want, C.mloc(hb, a), "guard `%s`" % g if g == want else "guard is `%s`, expected `%s`: components get no class/style bits" % (g, want))
                elif body_s in ("{}", "()", "") or body_s == "{}":
                    if g and "transform_on" in g:
                        ok = names <= {"on", "nativeOn"}
                        r.ob("plain attribute: names skipped under transformOn", ok, C.mloc(hb, a), "%s when options.transform_on" % sorted(names))
                    else:
                        reserved |= names
                        ok = names <= {"key", "ref"}
                        r.ob("plain attribute: reserved names without coverage", ok, C.mloc(hb, a), "reserved: %s" % sorted(names) if ok else
                             "%s are skipped although they are ordinary props (Vue reserves only key/ref)" % sorted(names - {"key", "ref"}))
            # the whole match sits under the non-constant test
            kt = idx.known_true(n)
            nonconst = any("is_jsx_attr_value_constant" in expr_str(f[1] if isinstance(f, tuple) else f) for f in kt)
            r.ob("plain attribute: coverage is decided under the non-constant test", nonconst, C.mloc(hb, n), "under !is_jsx_attr_value_constant(..)" if nonconst else "not tied to the constancy test")
    return r


def const_bool(node):
    n = strip_transparent(node)
    if n.get("k") == "Lit" and n.get("lit") == "bool":
        return n["v"]
    return None


def _kd(kd):
    if kd is None:
        return "<?>"
    if kd[0] == "const":
        return '"%s"' % kd[1]
    if kd[0] == "local":
        return "<%s>" % kd[1][0]
    if kd[0] == "fmt":
        return "".join(v if k == "lit" else "{%s}" % (v[0] if v else "?") for k, v in kd[1])
    return str(kd)


def _same_str(a, b):
    if a is None or b is None:
        return False
    if a[0] == "local" and b[0] == "local":
        return a[1] == b[1]
    return a == b


def _value_is_generated_constant(idx, value):
    if value is None:
        return None
    v = strip_transparent(value)
    lo = local_of(v)
    if lo:
        b = idx.binding.get(lo[1])
        path = (b or {}).get("path") or ()
        if lo[0] == "modifiers" or (path and path[-1][0] in ("field", "tfield") and len(path[-1]) > 3 and path[-1][3] == "modifiers"):
            return "directive modifiers"
    if v.get("k") == "Field" and v["name"] == "modifiers":
        return "directive modifiers"
    return None


def r13_4(ctx):
    r = Rule("R13.4", "final flag assembly: each bit is inserted under exactly its condition; NEED_PATCH under (no flag or hydration only) and (ref or directives)",
             "a missing disjunct leaves a vnode with a ref / directive unpatched")
    hb = C.role_or_fail(ctx, r, "attr_fold")
    if not hb:
        return r
    r.saw(hb["path"])
    idx = HirIndex(hb)
    want = {
        "FULL_PROPS": {"has_dynamic_keys"},
        "CLASS": {"!has_dynamic_keys", "has_class_binding"},
        "STYLE": {"!has_dynamic_keys", "has_style_binding"},
        "PROPS": {"!has_dynamic_keys", "!dynamic_props.is_empty()"},
        "HYDRATE_EVENTS": {"!has_dynamic_keys", "has_hydration_event_binding"},
    }
    seen = set()
    for n in walk(hb["body"]):
        if n.get("k") == "MethodCall" and n["method"] == "insert" and (strip_transparent(n["recv"]).get("ty") or "").endswith("PatchFlags") and n["args"]:
            a = strip_transparent(n["args"][0])
            nm = (a.get("res", {}).get("path") or "").split("::")[-1] if a.get("k") == "Path" else "?"
            conds = {c.replace("!!", "") for c in _cond_keys(idx, n, hb["body"])}
            seen.add(nm)
            if nm in want:
                ok = conds == want[nm]
                r.ob("PatchFlags::%s is inserted under its condition" % nm, ok, C.mloc(hb, n), "conditions %s" % sorted(conds) if ok else "conditions %s, expected %s" % (sorted(conds), sorted(want[nm])))
            elif nm == "NEED_PATCH":
                # two conjuncts, each a disjunction
                par = None
                child = n
                for p in idx.parents(n):
                    if p.get("k") == "If" and child is p.get("then"):
                        par = p
                        break
                    child = p
                if par is None:
                    r.ob("PatchFlags::NEED_PATCH condition", False, C.mloc(hb, n), "not under an if")
                else:
                    cj = conjuncts(par["cond"])
                    groups = [sorted(expr_str(d) for d in disjuncts(c)) for c in cj]
                    flat = sorted(groups)
                    g1 = any(set(g) == {"patch_flags.is_empty()", "(patch_flags == 32)"} for g in groups)
                    g2 = any(set(g) == {"has_ref", "!directives.is_empty()"} for g in groups)
                    r.ob("PatchFlags::NEED_PATCH condition", g1 and g2 and len(groups) == 2, C.mloc(hb, par),
                         "(%s)" % ") && (".join(" || ".join(g) for g in groups))
            else:
                r.ob("PatchFlags::%s inserted" % nm, None, C.mloc(hb, n), "flag without a table entry (not decided)")
    for nm in list(want) + ["NEED_PATCH"]:
        if nm not in seen:
            r.ob("PatchFlags::%s is inserted somewhere" % nm, False, C.mloc(hb, hb), "never inserted")
    # the booleans are set only in their arms
    cl = _fold_closure(hb)
    if cl is not None:
        for n in walk(cl["body"]):
            if n.get("k") == "Assign":
                lo = local_of(n["l"])
                if lo and lo[0] in ("has_ref", "has_hydration_event_binding") and const_bool(n["r"]) is True:
                    conds = sorted(expr_str(f[1] if isinstance(f, tuple) else f) if not isinstance(f, tuple) else "!" + expr_str(f[1]) for f in idx.known_true(n))
                    if lo[0] == "has_ref":
                        ok = any("'ref'" in c for c in conds)
                        r.ob("has_ref is set for the `ref` attribute", ok, C.mloc(hb, n), "; ".join(conds)[:200])
                    else:
                        # the listener test: the `is_on` helper, or its body written in place (`[b'o', b'n', c, ..]` with c not a lowercase letter)
                        listener = any("is_on" in c or (re.search(r"\[111, 110, [^\]]*\]", c) and "is_ascii_lowercase()" in c) for c in conds)
                        ok = listener and any("is_component" in c for c in conds)
                        r.ob("hydration flag only for onXxx listeners on elements", ok, C.mloc(hb, n), "; ".join(conds)[:260])
    return r


def r13_5(ctx):
    r = Rule("R13.5", "slot flags: one push per builder before its single call of the children builder, one pop there, all under the same option test; spread and expression children mark bound identifiers alike",
             "an unbalanced stack gives an enclosing slot the wrong `_` value")
    ch = C.role_or_fail(ctx, r, "children_builder")
    if not ch:
        return r
    for role in ("element_builder", "fragment_builder"):
        b = C.role_or_fail(ctx, r, role)
        if not b:
            continue
        mb = C.mir_of(ctx, b)
        r.saw(mb["path"])
        g = C.cfg_of(ctx, mb)
        fl = flow_of(ctx, mb)
        pushes = []
        for i, t in calls(mb):
            if callee_name(t).endswith("Vec::<T, A>::push") and t.get("arg_tys", [""])[0] == "&mut alloc::vec::Vec<slot_flag::SlotFlag>":
                pushes.append(i)
        child_calls = [i for i, t in calls(mb) if callee_name(t) == ch["path"]]
        key = "%s pushes one slot flag (under optimize) before its single call of the children builder" % role
        if len(child_calls) != 1:
            r.ob(key, False, C.mloc(mb, mb), "%d call(s) of the children builder (each call pops once)" % len(child_calls))
            continue
        cc = child_calls[0]
        on_all = g.must_pass({cc})
        good_push = [p for p in pushes if "options.optimize" in {f.strip(".") for f in controlling_fields(ctx, mb, p)} and g.can_reach(p, cc) and p not in g.reach_after(cc)]
        # ... and under nothing else: the pop in the children builder is unconditional under optimize, so a push that also depends on
        # another test (component host only, has children, ...) leaves the stack unbalanced
        from .influence import switch_fields
        extra = []
        for p_ in good_push:
            for (a_, s_) in g.transitive_control_branches(p_):
                fs = {f.strip(".") for f in switch_fields(ctx, mb, a_)}
                if "options.optimize" not in fs:
                    extra.append(a_)
        # exactly one push block and it is not in a loop
        ok = len(pushes) == 1 and len(good_push) == 1 and on_all and not extra
        r.ob(key, ok, C.mloc(mb, mb["blocks"][cc]["term"]),
             "push in bb%s under options.optimize, children builder in bb%d on every path" % (pushes, cc) if ok else
             ("the push also depends on the test(s) in bb%s, the pop does not: for the hosts that skip the push the pop takes the enclosing element's flag" % sorted(set(extra))) if extra else
             "pushes: %s (under optimize and before the call: %s); children builder on every path: %s" % (pushes, good_push, on_all))
    # the pop in the children builder
    mb = C.mir_of(ctx, ch)
    r.saw(mb["path"])
    g = C.cfg_of(ctx, mb)
    pops = [i for i, t in calls(mb) if callee_name(t).endswith("Vec::<T, A>::pop") and t.get("arg_tys", [""])[0] == "&mut alloc::vec::Vec<slot_flag::SlotFlag>"]
    okp = len(pops) == 1 and "options.optimize" in {f.strip(".") for f in controlling_fields(ctx, mb, pops[0])}
    # the optimize test guarding the pop lies on every path
    r.ob("children builder pops exactly once under optimize", okp, C.mloc(mb, mb["blocks"][pops[0]]["term"]) if pops else "-", "pop in bb%s" % pops)
    if okp:
        # the builders push before *every* call of the children builder, so its optimize test (and with it the pop) must lie on every path through it
        from .influence import switch_fields
        tests = {a_ for (a_, s_) in g.transitive_control_branches(pops[0]) if "options.optimize" in {f.strip(".") for f in switch_fields(ctx, mb, a_)}}
        on_all = bool(tests) and g.must_pass(tests)
        esc = None if on_all else g.escaping_exit(tests)
        r.ob("the pop is reached on every path through the children builder (under optimize)", on_all, C.mloc(mb, mb["blocks"][pops[0]]["term"]),
             "the optimize test in bb%s is on every path" % sorted(tests) if on_all else
             "a path returns (bb%s) before the optimize test that guards the pop: the flag pushed for this element stays on the stack and is popped by the enclosing element" % esc)
    # expression vs spread children: same treatment of identifiers
    idx = HirIndex(ch)
    fills = [n for n in walk(ch["body"]) if n.get("k") == "MethodCall" and n["method"] == "fill" and (field_path(strip_transparent(n["recv"])) or "").endswith("slot_flag_stack")
             and n["args"] and "Dynamic" in expr_str(n["args"][0])]
    kinds = {}
    for f in fills:
        facts = idx.known_true(f)
        texts = []
        for fc in facts:
            neg = isinstance(fc, tuple)
            node = fc[1] if neg else fc
            texts.append(("!" if neg else "") + expr_str(node, names={}))
        arms = [p for p in idx.parents(f) if p.get("k") == "Arm"]
        is_ident = any(pat_str(a["pat"]).startswith("Ident(") for a in arms) or any(t.startswith("let Ident(") for t in texts)
        under_opt = any(re.fullmatch(r"v\d+\.options\.optimize", t) for t in texts)
        bound = any(t.startswith("!") and re.search(r"has_mark\(v\d+\.unresolved_mark\)", t) for t in texts)
        kind = None
        for a in arms:
            ps = pat_str(a["pat"])
            if "JSXExprContainer" in ps:
                kind = "expression"
            elif "JSXSpreadChild" in ps:
                kind = "spread"
        ok = is_ident and under_opt and bound
        kinds.setdefault(kind or "?", []).append(ok)
        r.ob("fill(Dynamic) for a %s child happens under optimize, for an identifier that is not unresolved" % (kind or "?"), ok, C.mloc(ch, f),
             "facts at the call: %s" % texts[:6] + ("; identifier arm" if is_ident else "; NOT restricted to identifier children"))
    if fills:
        both = all(kinds.get(k) and all(kinds[k]) for k in ("expression", "spread"))
        r.ob("expression and spread children mark bound identifiers identically", both, C.mloc(ch, fills[0]),
             "fill(Dynamic) under the same three conditions for %s children" % sorted(kinds) if both else "marking present for %s only" % sorted(k for k in kinds if all(kinds[k])))
    else:
        r.ob("bound identifier children mark the slot dynamic", False, C.mloc(ch, ch), "no `fill(SlotFlag::Dynamic)` under optimize in the children builder")
    return r


def r13_7(ctx):
    r = Rule("R13.7", "the dynamic-prop set only grows while the attributes are folded: a name that was recorded as dynamic stays recorded",
             "removing a name because a later attribute repeats it leaves the earlier dynamic value in the props without a hint")
    hb = C.role_or_fail(ctx, r, "attr_fold")
    if not hb:
        return r
    r.saw(hb["path"])
    n = 0
    for x in walk(hb["body"]):
        if x.get("k") == "MethodCall" and (local_of(x["recv"]) or ("", 0))[0] == "dynamic_props":
            n += 1
            if x["method"] in ("remove", "shift_remove", "swap_remove", "retain", "clear", "pop", "drain", "take", "truncate", "shift_remove_full", "swap_remove_full", "difference"):
                r.ob("dynamic_props.%s" % x["method"], False, C.mloc(hb, x), "a recorded dynamic prop name is taken out of the set again")
    r.ob("uses of the dynamic-prop set are additions / reads", True, "-", "%d method call(s) on dynamic_props" % n)
    return r


def r13_6(ctx):
    r = Rule("R13.6", "constant-ness is conservative: only literals, `undefined`, and arrays/objects of constants are constant; everything else is dynamic",
             "a dynamic value classified constant is left out of every hint")
    ic = C.role_or_fail(ctx, r, "is_constant")
    if not ic:
        return r
    r.saw(ic["path"])
    m = None
    for n in walk(ic["body"]):
        if n.get("k") == "Match":
            m = n
            break
    if m is None:
        r.ob("is_constant is a match over Expr", None, C.mloc(ic, ic), "shape not recognised")
        return r
    for a in m["arms"]:
        ps = pat_str(a["pat"])
        bs = expr_str(a["body"])
        if ps.startswith("Lit("):
            ok = bs == "True"
            why = "literals are constant"
            # nothing rides along in the same arm: a template literal with substitutions, a call, ... are not constants
            alts = [p_.strip() for p_ in ps.split(" | ")]
            extra = [p_ for p_ in alts if not p_.startswith("Lit(")]
            if extra:
                ok = False
                why = "%s is classified constant together with literals" % extra
        elif ps.startswith("Ident("):
            ok = "'undefined'" in bs and "==" in bs
            why = "identifier only when it is `undefined`"
        elif ps.startswith("Array(") or ps.startswith("Object("):
            ok = ".all(" in bs and "is_constant(" in bs
            why = "conjunction over the elements"
            # the element test may be a named local function handed to `.all(..)`: read its body in place of the closure's
            helper_bodies = []
            for x in walk(a["body"]):
                if x.get("k") == "MethodCall" and x["method"] == "all" and x["args"]:
                    fv = strip_transparent(x["args"][0])
                    if fv.get("k") == "Path" and (fv.get("res") or {}).get("r") == "def" and fv["res"].get("path"):
                        hb2 = [b for b in ctx.facts.hir if b["crate"] == ic["crate"] and b["path"] == fv["res"]["path"]]
                        if hb2:
                            helper_bodies.append(hb2[0]["body"])
            if helper_bodies and ".all(" in bs:
                from .c02 import _leaves as _lv
                hb_txt = " ".join(expr_str(b_) for b_ in helper_bodies)
                ok = "is_constant(" in hb_txt and all(any(expr_str(l) == "False" for l in _lv(b_)) for b_ in helper_bodies)
                bs = bs + " where " + hb_txt
                if not ok:
                    why = "the element test handed to .all(..) does not recurse into is_constant or classifies no element form dynamic"
            # ... over *all* of them: nothing may be filtered out before the conjunction, and what is not a plain element / property is dynamic
            skipping = [x["method"] for x in walk(a["body"]) if x.get("k") == "MethodCall" and x["method"] in
                        ("filter", "filter_map", "flat_map", "flatten", "skip", "skip_while", "take", "take_while", "step_by", "map_while")]
            if skipping:
                ok = False
                why = "elements are dropped by %s() before the conjunction: a spread / hole among constants is then not seen" % skipping[0]
            else:
                alls = [x for x in walk(a["body"]) if x.get("k") == "MethodCall" and x["method"] == "all" and x["args"] and x["args"][0].get("k") == "Closure"]
                from .c02 import _leaves
                if alls and not any(expr_str(l) == "False" for l in _leaves(alls[0]["args"][0]["body"])):
                    ok = False
                    why = "no element form is classified dynamic inside the conjunction (spread elements / accessors must be)"
        elif ps == "_":
            ok = bs == "False"
            why = "default is dynamic"
        else:
            ok = bs == "False"
            why = "other variants must be dynamic"
        r.ob("is_constant arm %s" % ps[:50], ok, C.mloc(ic, a), "%s: %s" % (why, bs[:140]))
    if not any(pat_str(a["pat"]) == "_" for a in m["arms"]):
        r.ob("is_constant default arm", False, C.mloc(ic, m), "no default arm")
    return r


def rules(ctx):
    return [__import__('vjsx.rules.c10', fromlist=['x']).field_ratchet('hints must not depend on earlier elements'), r13_7, r13_1, r13_2, r13_3, r13_4, r13_5, r13_6, __import__('vjsx.rules.c01', fromlist=['x']).r01_8]


EXPLANATION = (
    "R13.1: PatchFlags associated constants and SlotFlag discriminants, as evaluated by the compiler, equal Vue's table. R13.2: hand-written "
    "code only names positive flag constants and never calls all/from_bits*/complement/toggle/not. R13.3 (typed HIR of the attribute fold, "
    "per arm): every KeyValue emission with a string key is paired with a dynamic_props.insert of the same constant / same local in its "
    "arm (generated modifier objects are constant), every insert names an emitted key, every computed key / merge argument / spread is "
    "covered by `has_dynamic_keys = true` under the same or a weaker guard, and the plain-attribute name table reserves only key/ref "
    "(on/nativeOn only under transformOn) with class/style bits guarded by !is_component. R13.4: the flag assembly table. R13.5: slot "
    "flag push/pop pairing on MIR and identical handling of expression and spread children. R13.6: is_constant's arm table."
)
ASSUMPTIONS = ["Vue's published PatchFlags / SlotFlags values", "whether an expression classified constant can really never change (computed keys inside constant object literals) is not analysed"]
TRUSTED = ["rustc nightly HIR/MIR", "Vue runtime constants"]
LEVEL = "other"
LEVEL_TEXT = ("Table-level necessary conditions decided on the resolved program for all paths of the attribute fold and the flag assembly; "
              "constants compared with Vue's. Soundness of is_constant for every expression is not claimed.")
LEVEL_NOTE = "Trusted: rustc HIR/MIR; Vue constants. Not decided: semantic constancy of expressions."
TECHNIQUE = "compiler-evaluated constants + per-arm table extraction with guard sets on typed HIR + MIR push/pop pairing"
