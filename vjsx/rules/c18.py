"""C18 — parameter defaults become runtime prop defaults without changing them."""
import re
from ..facts import AST, VISITOR_CRATE, walk, strip_transparent, field_path, const_str, local_of
from ..engine import Rule
from . import common as C
from .hirflow import HirIndex
from .hirtext import expr_str, pat_str


def r18_1(ctx):
    r = Rule("R18.1", "classification of default-object members: statically known keys only for shorthand / key-value / getter-with-body / method with a literal-unwrappable key; everything else is dynamic (mergeDefaults)",
             "a member wrongly treated as static gives the wrong prop a default or drops the real key")
    pe = C.role_or_fail(ctx, r, "props_extractor")
    if not pe:
        return r
    r.saw(pe["path"])
    # the closure mapping PropOrSpread -> Option<(key, value)>
    table = None
    for n in walk(C.family_body(ctx, pe)):
        if n.get("k") == "Match" and any((x.get("adt") or "") == AST + "Prop" for a in n["arms"] for x in walk(a["pat"])):
            table = n
            break
    if table is None:
        r.ob("default member table found", False, C.mloc(pe, pe), "no match over Prop variants in the props extractor")
        return r
    want_static = {"Shorthand", "KeyValue", "Getter", "Method"}
    seen_static = set()
    for a in table["arms"]:
        vs = [x.get("variant") for x in walk(a["pat"]) if x.get("k") in ("PTupleStruct", "PStruct") and x.get("adt") == AST + "Prop"]
        body = expr_str(a["body"])
        is_none = body == "None"
        for v in vs or ["_"]:
            if v == "_" or not vs:
                r.ob("default member `_` (setter, assign, getter without body, ...) is dynamic", is_none, C.mloc(pe, a), "=> None" if is_none else "=> %s" % body[:80])
            elif v in want_static:
                seen_static.add(v)
                uses_unwrap = "try_unwrap_lit_prop_name" in body or v == "Shorthand"
                r.ob("default member %s is static only through the literal-key unwrapper" % v, (not is_none) and uses_unwrap, C.mloc(pe, a), body[:120])
                if v == "Getter":
                    ps = pat_str(a["pat"])
                    r.ob("getter defaults need a body", "body: Some" in ps, C.mloc(pe, a), ps[:100])
            else:
                r.ob("default member %s is dynamic" % v, is_none, C.mloc(pe, a), "=> %s" % body[:60])
    r.ob("all four static member forms are handled", seen_static == want_static, C.mloc(pe, table), "handled: %s" % sorted(seen_static))
    # spread members make the whole object dynamic: the non-Prop branch yields None
    txt = expr_str(table)
    # the literal-key unwrapper
    for b in ctx.facts.hir:
        if b["crate"] == VISITOR_CRATE and not b.get("mac") and b["inputs"] == ["&%sPropName" % AST] and b["output"].startswith("core::option::Option<alloc::borrow::Cow<"):
            r.saw(b["path"])
            comp = None
            for m in walk(b["body"]):
                if m.get("k") == "Match" and any(x.get("adt") == AST + "Expr" for a in m["arms"] for x in walk(a["pat"]) if x.get("k") in ("PTupleStruct", "PStruct")):
                    comp = m
            if comp is not None:
                for a in comp["arms"]:
                    ps = pat_str(a["pat"])
                    body = expr_str(a["body"])
                    if ps.startswith("Lit("):
                        r.ob("computed key %s is a static key" % ps[:30], body != "None", C.mloc(b, a), body[:80])
                    else:
                        r.ob("computed key %s is dynamic" % ps[:30], body == "None", C.mloc(b, a),
                             "=> None" if body == "None" else "`[%s]: v` is treated as the static key: the binding's *name* is used instead of its value" % ps[:20])
            else:
                r.ob("computed-key table found", None, C.mloc(b, b), "no match over the computed expression")
    return r


def r18_2(ctx):
    r = Rule("R18.2", "the factory wrap of a non-literal default must take the prop's inferred types into account (a Function-typed prop keeps the written function)",
             "Vue calls a function default as a factory unless the prop's type is Function")
    pe = C.role_or_fail(ctx, r, "props_extractor")
    pb = C.role(ctx, "props_builder")
    if not pe:
        return r
    r.saw(pe["path"])
    for n in walk(C.family_body(ctx, pe)):
        if n.get("k") == "If" and any(x.get("k") == "Struct" and x.get("adt") == AST + "ArrowExpr" for x in walk(n.get("else") or {})):
            cond = expr_str(n["cond"])
            # does the wrap decision — here, or where the default is attached to its prop — read the inferred types?
            type_aware = "types" in cond
            how = ""
            if pb is not None:
                idx = HirIndex(pb)
                for x in walk(pb["body"]):
                    if x.get("k") == "Struct" and x.get("adt") == AST + "KeyValueProp":
                        fs = {f["name"]: f["e"] for f in x["fields"]}
                        key = fs.get("key")
                        if key is None or not any(y.get("k") == "Lit" and y.get("v") == "default" for y in walk(key)):
                            continue
                        # the emitted value and the conditions that select it
                        conds = []
                        val = fs.get("value")
                        lo = None
                        for y in walk(val):
                            if y.get("k") == "Path" and y["res"].get("r") == "local":
                                lo = (y["res"]["name"], y["res"]["id"])
                        nodes = [val]
                        if lo:
                            b = idx.binding.get(lo[1])
                            if b and b.get("init") is not None:
                                nodes.append(b["init"])
                        for nd in nodes:
                            for y in walk(nd):
                                if y.get("k") == "Arm" and y.get("guard") is not None:
                                    conds.append(y["guard"])
                                if y.get("k") == "If":
                                    conds.append(y["cond"])
                        conds += [f[1] if isinstance(f, tuple) else f for f in idx.known_true(x)]
                        for cnd in conds:
                            txt = expr_str(cnd)
                            locs = [y for y in walk(cnd) if y.get("k") == "Path" and y["res"].get("r") == "local"]
                            for y in locs:
                                bb = idx.binding.get(y["res"]["id"])
                                if bb and bb.get("init") is not None:
                                    txt += " " + expr_str(bb["init"])
                            if ".types" in txt:
                                type_aware = True
                                how = "the default is unwrapped under `%s`" % expr_str(cnd)[:100]
                                # "Function" must be the prop's *only* type: for `string | (() => string)` Vue still calls a function default as a factory
                                exact = ".types.len() == 1" in txt.replace("(", "").replace(")", "") or "types.len() == 1" in txt
                                r.ob("the written function is kept only when Function is the prop's only inferred type", exact, C.mloc(pb, cnd),
                                     txt[:140] if exact else "`%s` does not require the type set to be exactly {Function}: a prop that may also be a string gets its factory default unwrapped" % txt[:100])
            from .hirflow import disjuncts
            extra = [expr_str(d) for d in disjuncts(n["cond"]) if not re.search(r"\.is_lit\(\)$", expr_str(d)) and ".types" not in expr_str(d)]
            r.ob("key-value default: only literals are emitted as written without looking at the prop's type", not extra, C.mloc(pe, n),
                 "as-is condition: `%s`" % cond if not extra else "`%s` also emits %s as written, whatever the prop's inferred type: for a non-Function prop Vue calls that function as a factory" % (cond, extra))
            r.ob("key-value default: wrap decided by `%s`" % cond, type_aware, C.mloc(pe, n),
                 ("the decision looks at the inferred types: " + how) if type_aware else
                 "the value is emitted as-is only when `%s`; every other expression — including a function written as the default of a Function-typed prop — is wrapped in `() => ...`, so Vue receives a factory around the function" % cond)
    return r


def r18_4(ctx):
    r = Rule("R18.4", "the factory arrow generated around a non-literal default carries DUMMY_SP: the props builder tells it from a function the user wrote by that span",
             "with a real span the builder no longer strips the factory for a Function-typed prop: Vue receives a factory around the written function")
    pe = C.role_or_fail(ctx, r, "props_extractor")
    if not pe:
        return r
    r.saw(pe["path"])
    n = 0
    for x in walk(C.family_body(ctx, pe)):
        if x.get("k") == "Struct" and x.get("adt") == AST + "ArrowExpr":
            n += 1
            sp = {f["name"]: f["e"] for f in x["fields"]}.get("span")
            t = expr_str(sp) if sp is not None else "<default>"
            r.ob("generated factory arrow #%d has span DUMMY_SP" % n, t == "DUMMY_SP", C.mloc(pe, x), t if t == "DUMMY_SP" else "span is `%s`" % t[:60])
    pb = C.role(ctx, "props_builder")
    if pb is not None:
        tt = expr_str(pb["body"])
        r.ob("the props builder recognises the generated factory by `span == DUMMY_SP`", "(span == DUMMY_SP)" in tt, C.mloc(pb, pb), "test present" if "(span == DUMMY_SP)" in tt else "no span test (different strategy: see R18.2)")
    r.ob("generated factory arrows found", n > 0, "-", "%d ArrowExpr literal(s) in the props extractor" % n)
    return r


def r18_3(ctx):
    r = Rule("R18.3", "defaults are matched to props symmetrically for quoted and unquoted keys; mergeDefaults(props, defaults) for dynamic defaults",
             "an asymmetric match drops the default of one spelling; swapped arguments merge the wrong way")
    pb = C.role_or_fail(ctx, r, "props_builder")
    pe = C.role(ctx, "props_extractor")
    if pb:
        r.saw(pb["path"])
        pairs = set()
        for n in walk(pb["body"]):
            if n.get("k") in ("LetExpr", "Let", "Arm") and (n.get("pat") or {}).get("k") in ("POr", "PTuple"):
                alts = n["pat"]["pats"] if n["pat"].get("k") == "POr" else [n["pat"]]
                for alt in alts:
                    if alt.get("k") == "PTuple" and len(alt["pats"]) == 2:
                        vs = []
                        for p in alt["pats"]:
                            v = [x.get("variant") for x in walk(p) if x.get("k") in ("PTupleStruct", "PStruct") and x.get("adt") == AST + "PropName"]
                            vs.append(v[0] if v else "?")
                        pairs.add(tuple(vs))
        ok = ("Ident", "Str") in pairs and ("Str", "Ident") in pairs
        r.ob("cross-spelling key match covers both directions", ok, C.mloc(pb, pb), "pairs matched: %s" % sorted(pairs) if pairs else "no (PropName, PropName) cross match found")
        # eq_ignore_span for same-spelling keys
        eq = any(n.get("k") == "MethodCall" and n["method"] == "eq_ignore_span" for n in walk(pb["body"]))
        r.ob("same-spelling keys are compared ignoring spans", eq, C.mloc(pb, pb), "eq_ignore_span" if eq else "missing")
    if pe:
        r.saw(pe["path"])
        imp = C.role(ctx, "import_fn")
        found = False
        for n in walk(C.family_body(ctx, pe)):
            if n.get("k") == "Struct" and n.get("adt") == AST + "CallExpr":
                fs = {f["name"]: f["e"] for f in n["fields"]}
                callee_l = [x for x in walk(fs.get("callee", {})) if x.get("k") == "Path" and x["res"].get("r") == "local"]
                args = None
                for x in walk(fs.get("args", {})):
                    if x.get("k") == "Array":
                        args = x["items"]
                        break
                if args and len(args) == 2:
                    found = True
                    a0 = expr_str(args[0])
                    a1 = expr_str(args[1])
                    ok_order = "build_props_type" in a0 and "build_props_type" not in a1
                    # callee comes from import_from_vue("mergeDefaults")
                    idx = HirIndex(pe)
                    ok_callee = False
                    for cl in callee_l:
                        b = idx.binding.get(cl["res"]["id"])
                        if b and b.get("init") is not None:
                            t = expr_str(b["init"])
                            if "'mergeDefaults'" in t and imp is not None and imp["name"] in t:
                                ok_callee = True
                    r.ob("dynamic defaults: mergeDefaults(<declared props>, <default expression>)", ok_order and ok_callee, C.mloc(pe, n), "args: [%s, %s]; callee imported as mergeDefaults: %s" % (a0[:50], a1[:40], ok_callee))
        if not found:
            r.ob("dynamic defaults: mergeDefaults(<declared props>, <default expression>)", None, C.mloc(pe, pe), "no two-argument call literal found")
    return r


def r18_5(ctx):
    r = Rule("R18.5", "the written defaults are looked up, never consumed: the props builder takes no mutable reference to the list of defaults",
             "a default that is moved out of the list (swap_remove / remove / drain / pop) is gone when a second declaration of the same key asks for it")
    from ..cfg import calls, callee_name
    pb = C.role_or_fail(ctx, r, "props_builder")
    if not pb:
        return r
    dty = next((t for t in pb["inputs"] if "PropName" in t and "Expr" in t and "Vec<" in t), None)
    if dty is None:
        r.ob("the props builder receives the list of defaults", None, C.mloc(pb, pb), "no parameter of type Vec<(PropName, Expr)> (different strategy)")
        return r
    m = re.search(r"alloc::vec::Vec<\(.*\)>", dty)
    vec_ty = re.sub(r"'[a-z_0-9]+", "'_", m.group(0)) if m else dty
    mb = C.mir_of(ctx, pb)
    n = 0
    for b in ctx.facts.mir_family(mb):
        r.saw(b["path"])
        for i, t in calls(b):
            for ty in t.get("arg_tys", []):
                tyn = re.sub(r"'[a-z_0-9]+", "'_", ty)
                if tyn.startswith("&mut ") and (tyn[5:] == vec_ty or tyn[5:] == "core::option::Option<%s>" % vec_ty):
                    n += 1
                    r.ob("%s: %s takes the defaults by mutable reference" % (b["path"], callee_name(t).split("::")[-1]), False, C.mloc(b, t),
                         "`%s` can remove or reorder the written defaults while props are still being emitted" % callee_name(t).split("::")[-1])
    r.ob("the defaults are only read in the props builder", n == 0, C.mloc(pb, pb), "no call receives `&mut %s`" % vec_ty[:80] if n == 0 else "%d mutating call(s)" % n)
    return r


def rules(ctx):
    from ..engine import only
    from . import c16
    return [__import__('vjsx.rules.c16', fromlist=['x']).r16_9, __import__('vjsx.rules.c10', fromlist=['x']).field_ratchet('defaults must not depend on what was resolved before'), r18_1, r18_2, r18_3, r18_4, r18_5,
            only(c16.r16_1, lambda k: k.startswith("props_extractor"), "the written default is taken the same way for every form of the setup function / its first parameter")]


EXPLANATION = (
    "R18.1 (A6): the table mapping default-object members to (key, value) pairs — Shorthand / KeyValue / Getter with body / Method are static "
    "only through the literal-key unwrapper, every other member and every spread yields None (dynamic, mergeDefaults); inside the unwrapper a "
    "computed key is static only when it is a literal. R18.2: the condition that decides between emitting a default as written and wrapping it "
    "in a factory must involve the prop's inferred types (repaired by 5dc72f5). R18.3: the quoted/unquoted key match has both "
    "directions; mergeDefaults(props, defaults) argument order and import name."
    ' R18.5: the props builder never takes the list of written defaults by mutable reference (defaults are looked up, not consumed).'
)
ASSUMPTIONS = ["Vue's resolvePropValue semantics (function defaults of non-Function props are factories)", "evaluating a factory is not modelled"]
TRUSTED = ["rustc nightly typed HIR"]
LEVEL = "other"
LEVEL_TEXT = "Table and template checks on the typed HIR of the props extractor / builder; the former defect (factory around a function default of a Function-typed prop) was repaired (5dc72f5)."
LEVEL_NOTE = "Trusted: rustc HIR. Not decided: runtime value of factories."
TECHNIQUE = "table extraction (A6) + guard inspection + construction-template order on typed HIR"
