"""Normalisation of the facts before the rules run: helper functions that the reviewed tree does not have (an "extract
function" refactoring, or new code put in a helper) are inlined into their callers, in the HIR view and in the MIR view, so that
the rules see the same program whichever way it is cut into functions.  Inlining is semantics-preserving; a helper that cannot
be inlined (recursive, used as a function value, early `return` in the HIR view) is left alone and the rules see the call."""
import copy, re

from .facts import walk, children, VISITOR_CRATE, PLUGIN_CRATE

MAX_ROUNDS = 4


def _user_fn(b):
    return b["crate"] in (VISITOR_CRATE, PLUGIN_CRATE) and not b.get("mac") and not b.get("impl_trait")


def new_helpers(facts, reference_functions):
    """local hand-written fns / inherent methods that the reference list does not know"""
    out = {}
    for hb in facts.hir:
        if _user_fn(hb) and hb.get("dk") in ("Fn", "AssocFn") and (hb["crate"] + "::" + hb["path"]) not in reference_functions:
            out[(hb["crate"], hb["path"])] = hb
    return out


# ------------------------------------------------------------------ HIR
def _hir_calls_to(node, path):
    return [n for n in walk(node) if n.get("k") in ("Call", "MethodCall") and n.get("callee") == path]


def _mentions_as_value(node, path):
    """the function is used other than as the callee of a direct call (passed by name)"""
    callee_exprs = {id(n["f"]) for n in walk(node) if n.get("k") == "Call" and isinstance(n.get("f"), dict)}
    for n in walk(node):
        if n.get("k") == "Path" and n["res"].get("r") == "def" and n["res"].get("path") == path and id(n) not in callee_exprs:
            return True
    return False


def _has_ret(body):
    for n in walk(body, enter_closures=False):
        if n.get("k") == "Ret":
            return True
    return False


def _ret_split(b):
    """b: a Block that certainly ends in `return X` -> Block with the statements before it and X as its value; else None"""
    if b.get("k") != "Block":
        return {"k": "Block", "sp": b.get("sp"), "stmts": [], "expr": b.get("e")} if b.get("k") == "Ret" and b.get("e") is not None else \
               ({"k": "Block", "sp": b.get("sp"), "stmts": []} if b.get("k") == "Ret" else None)
    stmts = list(b.get("stmts", []))
    last = b.get("expr")
    if last is None and stmts:
        last = stmts.pop()
    if last is None or last.get("k") != "Ret":
        return None
    out = {"k": "Block", "sp": b.get("sp"), "stmts": stmts}
    if last.get("e") is not None:
        out["expr"] = last["e"]
    if any(x.get("k") == "Ret" for st in stmts for x in walk(st, enter_closures=False)):
        return None
    return out


def _elim_tail(e, ty):
    """e in tail position of the function: `return X` there is X"""
    k = e.get("k")
    if k == "Ret":
        return e.get("e") if e.get("e") is not None else {"k": "Block", "sp": e.get("sp"), "stmts": [], "ty": "()"}
    if k == "Block":
        return _elim_block(e, ty)
    if k == "If":
        n = dict(e)
        n["then"] = _elim_tail(e["then"], ty)
        if e.get("else") is not None:
            n["else"] = _elim_tail(e["else"], ty)
        return n
    if k == "Match":
        n = dict(e)
        n["arms"] = [dict(a, body=_elim_tail(a["body"], ty)) for a in e["arms"]]
        return n
    return e


def _elim_block(blk, ty):
    """guard clauses (`let P = e else { return X };`, `if c { return X; }`) become the if / else they abbreviate"""
    stmts = list(blk.get("stmts", []))
    for i, st in enumerate(stmts):
        rest = {"k": "Block", "sp": blk.get("sp"), "stmts": stmts[i + 1:], "ty": ty}
        if blk.get("expr") is not None:
            rest["expr"] = blk["expr"]
        if st.get("k") == "Let" and st.get("else") is not None and st.get("init") is not None:
            x = _ret_split(st["else"])
            if x is None:
                return blk
            x["ty"] = ty
            cond = {"k": "LetExpr", "sp": st.get("sp"), "pat": st["pat"], "init": st["init"], "ty": "bool"}
            new_if = {"k": "If", "sp": st.get("sp"), "cond": cond, "then": _elim_block(rest, ty), "else": x, "ty": ty, "from_let_else": True}
            out = dict(blk, stmts=stmts[:i], expr=new_if)
            return out
        if st.get("k") == "If" and st.get("else") is None and any(x.get("k") == "Ret" for x in walk(st["then"], enter_closures=False)):
            x = _ret_split(st["then"])
            if x is None:
                return blk
            x["ty"] = ty
            new_if = {"k": "If", "sp": st.get("sp"), "cond": st["cond"], "then": x, "else": _elim_block(rest, ty), "ty": ty, "from_guard_clause": True}
            return dict(blk, stmts=stmts[:i], expr=new_if)
        if st.get("k") == "Ret":
            out = dict(blk, stmts=stmts[:i])
            out.pop("expr", None)
            if st.get("e") is not None:
                out["expr"] = st["e"]
            return out
    if blk.get("expr") is not None:
        return dict(blk, stmts=stmts, expr=_elim_tail(blk["expr"], ty))
    return blk


def eliminate_early_returns(hb):
    """a copy of the helper whose body has no `return`, or None when the returns are not of the guard-clause / tail kind"""
    body = copy.deepcopy(hb["body"])
    body = _elim_tail(body, hb.get("output"))
    if _has_ret(body):
        return None
    out = dict(hb)
    out["body"] = body
    return out


def _max_id(hb):
    m = 0
    for root in list(hb.get("params", [])) + [hb["body"]]:
        for n in walk(root):
            if n.get("k") == "PBind":
                m = max(m, n.get("id", 0))
    return m


SIMPLE = ("Path", "Field", "Lit")


def _simple(e):
    while e.get("k") in ("Ref", "Field") or (e.get("k") == "Unary" and e.get("op") == "*"):
        e = e["e"]
    return e.get("k") in ("Path", "Lit")


def _used_once(body, pid):
    n = 0
    for x in walk(body):
        if x.get("k") == "Path" and x.get("res", {}).get("r") == "local" and x["res"].get("id") == pid:
            n += 1
            if n > 1:
                return False
    # not under a closure or loop (which could evaluate it more than once or later)
    def under_repeat(node, inside):
        if node.get("k") == "Path" and node.get("res", {}).get("r") == "local" and node["res"].get("id") == pid:
            return inside
        for c in children(node):
            if under_repeat(c, inside or node.get("k") in ("Closure", "Loop")):
                return True
        return False
    return n == 1 and not under_repeat(body, False)


def _subst(node, idsub, off, tag, file):
    """deep copy with binding ids shifted by `off`, parameter uses replaced (idsub: id -> expression), closure defs tagged"""
    if isinstance(node, list):
        return [_subst(x, idsub, off, tag, file) for x in node]
    if not isinstance(node, dict):
        return node
    if node.get("k") == "Path" and node.get("res", {}).get("r") == "local" and node["res"].get("id") in idsub:
        return copy.deepcopy(idsub[node["res"]["id"]])
    out = {}
    for k, v in node.items():
        if k == "res" and isinstance(v, dict):
            v = dict(v)
            if v.get("r") == "local" and "id" in v:
                v["id"] = v["id"] + off
            out[k] = v
        elif k == "id" and node.get("k") == "PBind":
            out[k] = v + off
        elif k == "def" and node.get("k") == "Closure":
            out[k] = v + tag
        elif k in ("sp", "mac", "captures"):
            out[k] = copy.deepcopy(v)
        else:
            out[k] = _subst(v, idsub, off, tag, file)
    if file and "k" in out and "sp" in out:
        out["file"] = file
    return out


def _inline_hir_call(caller, call, helper, off, tag):
    params = helper.get("params", [])
    args = ([call["recv"]] if call.get("k") == "MethodCall" else []) + list(call["args"])
    if len(params) != len(args):
        return None
    idsub = {}
    lets = []
    for p, a in zip(params, args):
        if p.get("k") == "PBind" and not p.get("sub") and "Mut)" not in (p.get("mode") or "") and \
                (p.get("name") == "self" or _simple(a) or _used_once(helper["body"], p["id"])):
            # (a by-value parameter that the helper uses exactly once takes the argument expression in its place: the constructor
            # helpers this is for only move their arguments into a struct literal)
            idsub[p["id"]] = a
        else:
            lets.append((p, a))
    file = helper.get("file") if helper.get("file") != caller.get("file") else None
    body = _subst(helper["body"], idsub, off, tag, file)
    stmts = []
    for p, a in lets:
        stmts.append({"k": "Let", "sp": call.get("sp"), "pat": _subst(p, {}, off, tag, file), "init": a})
    blk = {"k": "Block", "sp": call.get("sp"), "ty": call.get("ty"), "inlined": helper["path"]}
    if body.get("k") == "Block":
        blk["stmts"] = stmts + list(body.get("stmts", []))
        if body.get("expr") is not None:
            blk["expr"] = body["expr"]
    else:
        blk["stmts"] = stmts
        blk["expr"] = body
    return blk


def _beta_reduce(root, off):
    """`(|p| body)(arg)` -> `{ let p = arg; body }` (p replaced by arg when arg is a plain place), in place under root"""
    changed = True
    rounds = 0
    while changed and rounds < 4:
        changed = False
        rounds += 1
        for n in list(walk(root)):
            if n.get("k") == "Call" and isinstance(n.get("f"), dict) and strip_t(n["f"]).get("k") == "Closure":
                cl = strip_t(n["f"])
                params = cl.get("params", [])
                args = n.get("args", [])
                if len(params) != len(args):
                    continue
                idsub, lets = {}, []
                for p_, a_ in zip(params, args):
                    if p_.get("k") == "PBind" and not p_.get("sub") and "Mut)" not in (p_.get("mode") or "") and _simple(a_):
                        idsub[p_["id"]] = a_
                    else:
                        lets.append({"k": "Let", "sp": n.get("sp"), "pat": p_, "init": a_})
                body = _subst(cl["body"], idsub, 0, "", None) if idsub else cl["body"]
                blk = {"k": "Block", "sp": n.get("sp"), "ty": n.get("ty"), "beta": True}
                if body.get("k") == "Block":
                    blk["stmts"] = lets + list(body.get("stmts", []))
                    if body.get("expr") is not None:
                        blk["expr"] = body["expr"]
                else:
                    blk["stmts"] = lets
                    blk["expr"] = body
                if _replace_node(root, n, blk):
                    changed = True
                    break


def strip_t(e):
    while isinstance(e, dict) and (e.get("k") == "Ref" or (e.get("k") == "Block" and not e.get("stmts") and e.get("expr") is not None)):
        e = e["e"] if e.get("k") == "Ref" else e["expr"]
    return e


def _replace_node(root, old, new):
    """replace `old` (by identity) under root, in place"""
    stack = [root]
    while stack:
        n = stack.pop()
        if isinstance(n, dict):
            for k, v in n.items():
                if v is old:
                    n[k] = new
                    return True
                if isinstance(v, (dict, list)) and k not in ("res", "sp", "mac", "captures"):
                    stack.append(v)
        elif isinstance(n, list):
            for i, v in enumerate(n):
                if v is old:
                    n[i] = new
                    return True
                if isinstance(v, (dict, list)):
                    stack.append(v)
    return False


# ------------------------------------------------------------------ MIR
TEMP = re.compile(r"\b_(\d+)\b")


def _remap_place_str(s, off):
    return TEMP.sub(lambda m: "_%d" % (int(m.group(1)) + off), s)


def _remap_mir(x, loff, boff, tag, resume_to):
    """deep copy of a MIR fragment with locals shifted by loff and block indices by boff"""
    if isinstance(x, list):
        return [_remap_mir(y, loff, boff, tag, resume_to) for y in x]
    if not isinstance(x, dict):
        return x
    out = {}
    for k, v in x.items():
        if k == "l" and isinstance(v, int):
            out[k] = v + loff
        elif k == "s" and isinstance(v, str):
            out[k] = _remap_place_str(v, loff)
        elif k in ("target", "unwind", "otherwise") and isinstance(v, int):
            out[k] = v + boff
        elif k == "targets" and isinstance(v, list):
            out[k] = [[t[0], t[1] + boff] if isinstance(t, list) else t for t in v]
        elif k == "index" and isinstance(v, int):
            out[k] = v + loff
        elif k == "def" and isinstance(v, str) and x.get("agg") == "closure":
            out[k] = v + tag
        elif k == "i" and isinstance(v, int) and "stmts" in x:
            out[k] = v + boff
        else:
            out[k] = _remap_mir(v, loff, boff, tag, resume_to)
    return out


def _inline_mir_call(facts, caller, bi, helper, tag):
    blk = caller["blocks"][bi]
    t = blk["term"]
    if t.get("target") is None:
        return False
    loff = len(caller["locals"])
    boff = len(caller["blocks"])
    for l in helper["locals"]:
        nl = dict(l)
        nl["i"] = l["i"] + loff
        caller["locals"].append(nl)
    for d in helper.get("debug", []):
        caller.setdefault("debug", []).append(_remap_mir(d, loff, boff, tag, None))
    new_blocks = _remap_mir(helper["blocks"], loff, boff, tag, None)
    for nb in new_blocks:
        nb["inlined_from"] = helper["path"]
        tt = nb.get("term") or {}
        if tt.get("k") == "return":
            ret_local = helper["locals"][0]
            nb["stmts"].append({"k": "assign", "lhs": t["dest"], "sp": t.get("sp"),
                                "rv": {"rk": "use", "op": {"move": {"l": loff, "s": "_%d" % loff, "ty": ret_local.get("ty")}}}})
            nb["term"] = {"k": "goto", "sp": tt.get("sp"), "target": t["target"]}
        elif tt.get("k") == "resume" and t.get("unwind") is not None:
            nb["term"] = {"k": "goto", "sp": tt.get("sp"), "target": t["unwind"]}
        caller["blocks"].append(nb)
    # the call becomes: parameters := arguments; goto entry
    for j, a in enumerate(t["args"]):
        pl = helper["locals"][j + 1]
        name = pl.get("name")
        blk["stmts"].append({"k": "assign", "sp": t.get("sp"),
                             "lhs": {"l": loff + j + 1, "s": name or "_%d" % (loff + j + 1), "ty": pl.get("ty")},
                             "rv": {"rk": "use", "op": a}})
        caller.setdefault("inlined_params", []).append(loff + j + 1)
    blk["term"] = {"k": "goto", "sp": t.get("sp"), "target": boff, "inlined": helper["path"]}
    # closures of the helper: one copy per inlining site, owned by the caller's root
    root = caller["parent"] if caller["dk"] == "Closure" else caller["path"]
    for c in facts.closures_of.get((helper["crate"], helper["path"]), []):
        cc = copy.deepcopy(c)
        cc["path"] = c["path"] + tag
        cc["parent"] = root
        cc["crate"] = caller["crate"]
        for b2 in cc["blocks"]:
            for s in b2["stmts"]:
                if s.get("k") == "assign" and s["rv"].get("agg") == "closure" and s["rv"].get("def", "").startswith(helper["path"] + "::"):
                    s["rv"]["def"] = s["rv"]["def"] + tag
        facts.mir.append(cc)
    return True


def _trace_def(body, local, want):
    """follow single `use` definitions of `local` back to an aggregate statement accepted by `want`"""
    seen = set()
    while local is not None and local not in seen:
        seen.add(local)
        defs = [s_ for blk in body["blocks"] for s_ in blk["stmts"] if s_.get("k") == "assign" and s_["lhs"]["l"] == local and not s_["lhs"].get("p")]
        if len(defs) != 1:
            return None
        rv = defs[0]["rv"]
        if want(rv):
            return rv
        if rv.get("rk") == "use":
            op = rv.get("op") or {}
            pl = op.get("move") or op.get("copy")
            local = pl["l"] if pl and not pl.get("p") else None
        else:
            return None
    return None


def _inline_closure_calls(facts, caller):
    """inside code that came from an inlined helper: `f(args)` where f is a closure built in this very body becomes the closure's body"""
    done = 0
    for _ in range(4):
        hit = None
        for blk in caller["blocks"]:
            t = blk.get("term") or {}
            if t.get("k") != "call" or not blk.get("inlined_from") or t.get("target") is None:
                continue
            cal = t.get("callee") or ""
            if not cal.endswith(("FnOnce::call_once", "FnMut::call_mut", "Fn::call")) or len(t["args"]) != 2:
                continue
            f_pl = t["args"][0].get("move") or t["args"][0].get("copy")
            a_pl = t["args"][1].get("move") or t["args"][1].get("copy")
            if not f_pl or not a_pl or f_pl.get("p") or a_pl.get("p"):
                continue
            cagg = _trace_def(caller, f_pl["l"], lambda rv: rv.get("rk") == "agg" and rv.get("agg") == "closure")
            tagg = _trace_def(caller, a_pl["l"], lambda rv: rv.get("rk") == "agg" and rv.get("agg") in ("tuple", "tup") or (rv.get("rk") == "agg" and not rv.get("adt") and rv.get("agg") not in ("closure", "adt", "array")))
            if cagg is None or tagg is None:
                continue
            cb = facts.mir_by_path.get((caller["crate"], cagg["def"]))
            if cb is None:
                continue
            hit = (blk, t, cagg, tagg, cb)
            break
        if hit is None:
            break
        blk, t, cagg, tagg, cb = hit
        loff = len(caller["locals"])
        boff = len(caller["blocks"])
        for l in cb["locals"]:
            nl = dict(l)
            nl["i"] = l["i"] + loff
            caller["locals"].append(nl)
        new_blocks = _remap_mir(cb["blocks"], loff, boff, "", None)
        names = [u["place"] for u in cb.get("upvars", [])]

        def fix_upvars(x):
            if isinstance(x, dict):
                if "upvar" in x and "l" in x:
                    name = x["upvar"]
                    if name in names and names.index(name) < len(cagg["ops"]):
                        cap = cagg["ops"][names.index(name)]
                        cpl = cap.get("move") or cap.get("copy")
                        if cpl is not None:
                            pr = x.get("p") or []
                            j = next((k for k, e in enumerate(pr) if isinstance(e, str) and e.startswith(".<upvar")), None)
                            rest = pr[j + 1:] if j is not None else pr
                            x["l"] = cpl["l"]
                            x["p"] = list(cpl.get("p") or []) + list(rest)
                            x["s"] = cpl["s"] + "".join(e if isinstance(e, str) else "[]" for e in rest)
                            del x["upvar"]
                    return
                for v in x.values():
                    fix_upvars(v)
            elif isinstance(x, list):
                for v in x:
                    fix_upvars(v)
        fix_upvars(new_blocks)
        for nb in new_blocks:
            nb["inlined_from"] = cb["path"]
            tt = nb.get("term") or {}
            if tt.get("k") == "return":
                nb["stmts"].append({"k": "assign", "lhs": t["dest"], "sp": t.get("sp"),
                                    "rv": {"rk": "use", "op": {"move": {"l": loff, "s": "_%d" % loff, "ty": cb["locals"][0].get("ty")}}}})
                nb["term"] = {"k": "goto", "sp": tt.get("sp"), "target": t["target"]}
            elif tt.get("k") == "resume" and t.get("unwind") is not None:
                nb["term"] = {"k": "goto", "sp": tt.get("sp"), "target": t["unwind"]}
            caller["blocks"].append(nb)
        for j, a in enumerate(tagg.get("ops", [])):
            if j + 2 < len(cb["locals"]):
                pl = cb["locals"][j + 2]
                blk["stmts"].append({"k": "assign", "sp": t.get("sp"),
                                     "lhs": {"l": loff + j + 2, "s": pl.get("name") or "_%d" % (loff + j + 2), "ty": pl.get("ty")},
                                     "rv": {"rk": "use", "op": a}})
                caller.setdefault("inlined_params", []).append(loff + j + 2)
        blk["term"] = {"k": "goto", "sp": t.get("sp"), "target": boff, "inlined": cb["path"]}
        cb["analysed_inlined"] = True
        done += 1
    return done


def _mir_calls_to(body, path):
    out = []
    for blk in body["blocks"]:
        t = blk.get("term") or {}
        if t.get("k") == "call" and (t.get("resolved") == path or t.get("callee") == path):
            out.append(blk["i"])
    return out


def _mir_mentions_as_value(body, path):
    def rec(x):
        if isinstance(x, dict):
            c = x.get("const")
            if isinstance(c, dict) and c.get("fn") == path:
                return True
            return any(rec(v) for k, v in x.items() if k != "func")
        if isinstance(x, list):
            return any(rec(v) for v in x)
        return False
    return rec(body["blocks"])


def _tag(sp):
    """names the copies of a helper's closures after the call site, the same way in both views"""
    return "@%d:%d" % (sp[0], sp[1]) if sp else "@?"


def inline_new_helpers(facts, reference_functions):
    """returns {helper path: [callers it was inlined into]}"""
    done = {}
    site = [0]
    for _ in range(MAX_ROUNDS):
        helpers = new_helpers(facts, reference_functions)
        progress = False
        for (crate, hpath), hb in sorted(helpers.items()):
            hm = facts.mir_by_path.get((crate, hpath))
            if hm is None:
                continue
            # not recursive, not a function value anywhere, does not itself still call another new helper (inline leaves first)
            if _hir_calls_to(hb["body"], hpath) or _mir_calls_to(hm, hpath):
                continue
            if any(_hir_calls_to(hb["body"], p2) for (c2, p2) in helpers if p2 != hpath):
                continue
            if any(_mentions_as_value(b["body"], hpath) for b in facts.hir if b["crate"] == crate) or \
               any(_mir_mentions_as_value(b, hpath) for b in facts.mir if b["crate"] == crate):
                continue
            callers = []
            hir_ok = not _has_ret(hb["body"])
            hb_inl = hb
            if not hir_ok:
                # guard-clause returns are rewritten into the if / else they stand for; other early returns stay (see below)
                alt = eliminate_early_returns(hb)
                if alt is not None:
                    hb_inl, hir_ok = alt, True
            # a helper with an early `return` cannot be inlined in the HIR view. It is still inlined in MIR (where `return` is a jump), its
            # blocks tagged `inlined_from`, and its own MIR body is kept, so that rules which pair a MIR site with the HIR of its function
            # (the panic-site inventory) analyse that code once, in the helper, with the HIR that matches it
            for b in list(facts.hir):
                if b is hb or b["crate"] not in (VISITOR_CRATE, PLUGIN_CRATE):
                    continue
                cs = _hir_calls_to(b["body"], hpath)
                if not cs:
                    continue
                if hir_ok:
                    for c in cs:
                        site[0] += 1
                        blk = _inline_hir_call(b, c, hb_inl, _max_id(b) + 1000, _tag(c.get("sp")))
                        if blk is not None:
                            _beta_reduce(blk, 0)
                            _replace_node(b["body"], c, blk)
                callers.append(b["path"])
            m_site = 0
            for b in list(facts.mir):
                if b is hm or b["crate"] not in (VISITOR_CRATE, PLUGIN_CRATE):
                    continue
                for bi in _mir_calls_to(b, hpath):
                    m_site += 1
                    _inline_mir_call(facts, b, bi, hm, _tag(b["blocks"][bi]["term"].get("sp")))
                    facts._index()
                    _inline_closure_calls(facts, b)
                    if b["path"] not in callers:
                        callers.append(b["path"])
            if callers:
                # nothing refers to the helper any more (HIR calls may remain when it has an early return: then keep the HIR body)
                if hir_ok:
                    facts.mir = [b for b in facts.mir if not (b["crate"] == crate and (b["path"] == hpath or b.get("parent") == hpath))]
                    facts.hir = [b for b in facts.hir if b is not hb]
                else:
                    for b in facts.mir:
                        if b["crate"] == crate and (b["path"] == hpath or b.get("parent") == hpath):
                            b["analysed_inlined"] = True     # kept only for site inventories; its effects are seen in the callers
                facts._index()
                done[hpath] = callers
                progress = True
        if not progress:
            break
    return done


# ------------------------------------------------------------------ option reads hoisted into locals
def propagate_option_locals(facts):
    """`let merge_props = self.options.merge_props;` ... `if merge_props` is the same program as `if self.options.merge_props`:
    the options are never written after construction (R10.1 / R14 decide that), so an immutable local initialised from an option
    field is replaced by the field read wherever it is used (HIR view; in MIR the copy is followed by the provenance analysis)."""
    from .facts import strip_transparent, field_path
    done = {}
    for hb in facts.hir:
        if hb["crate"] not in (VISITOR_CRATE, PLUGIN_CRATE) or hb.get("mac"):
            continue
        subs = {}
        for n in walk(hb["body"]):
            if n.get("k") == "Let" and n.get("init") is not None and n.get("else") is None:
                p = n["pat"]
                if p.get("k") == "PBind" and not p.get("sub") and (p.get("mode") or "") in ("BindingMode(No, Not)", ""):
                    init = strip_transparent(n["init"])
                    fp = field_path(init) if init.get("k") == "Field" else None
                    if fp and fp.startswith("self.options."):
                        subs[p["id"]] = (n, init)
        if not subs:
            continue
        idsub = {i: init for i, (_, init) in subs.items()}
        lets = {id(n) for n, _ in subs.values()}

        def rec(x):
            if isinstance(x, list):
                return [rec(y) for y in x if not (isinstance(y, dict) and id(y) in lets)]
            if not isinstance(x, dict):
                return x
            if x.get("k") == "Path" and x.get("res", {}).get("r") == "local" and x["res"].get("id") in idsub:
                return copy.deepcopy(idsub[x["res"]["id"]])
            for k, v in list(x.items()):
                if k in ("res", "sp", "mac"):
                    continue
                if k == "captures" and isinstance(v, list):
                    names = {n["pat"]["name"] for n, _ in subs.values()}
                    x[k] = [c for c in v if c.get("place") not in names]
                    continue
                if isinstance(v, (dict, list)):
                    x[k] = rec(v)
            return x
        hb["body"] = rec(hb["body"])
        done[hb["path"]] = sorted(n["pat"]["name"] for n, _ in subs.values())
    return done



# ------------------------------------------------------------------ locals grouped into a new private struct
def scalarise_new_structs(facts, reference_structs):
    """`let mut a = S::default(); a.x = ..; if a.y ..` for a struct S the reviewed tree does not have, when `a` is only ever used through
    its fields: the fields are presented as the separate locals they stand for (HIR view). Returns {function: {struct local: [fields]}}."""
    from .facts import walk_with_parents
    structs = {}
    for it in facts.items:
        if it.get("crate") == VISITOR_CRATE and it.get("kind") == "struct" and it["path"] not in reference_structs and it.get("variants"):
            structs[it["path"]] = it["variants"][0]["fields"]
    done = {}
    if not structs:
        return done

    def strip_ref(e):
        while isinstance(e, dict) and (e.get("k") in ("Ref", "Paren", "DropTemps") or (e.get("k") == "Unary" and e.get("op") == "*")):
            e = e["e"]
        return e
    for hb in facts.hir:
        if hb["crate"] != VISITOR_CRATE or hb.get("mac"):
            continue
        lets = []
        for n, ps in walk_with_parents(hb["body"]):
            if n.get("k") == "Let" and n["pat"].get("k") == "PBind" and (n["pat"].get("ty") or "") in structs and n.get("init") is not None and ps \
                    and ps[-1].get("k") == "Block":
                lets.append((n, ps[-1]))
        for let, blk in lets:
            bid = let["pat"]["id"]
            sname = let["pat"]["ty"]
            fields = structs[sname]
            init = strip_ref(let["init"])
            if init.get("k") == "Struct" and init.get("base") is None and not init.get("base_default"):
                inits = {f["name"]: f["e"] for f in init["fields"]}
            elif init.get("k") in ("Call", "MethodCall") and (init.get("callee") or "").endswith("Default::default"):
                inits = {}
            else:
                continue
            uses = [n for n in walk(hb["body"]) if n.get("k") == "Path" and n["res"].get("r") == "local" and n["res"].get("id") == bid]
            fnodes = [n for n in walk(hb["body"]) if n.get("k") == "Field" and strip_ref(n["e"]) is not None and strip_ref(n["e"]).get("k") == "Path"
                      and strip_ref(n["e"])["res"].get("r") == "local" and strip_ref(n["e"])["res"].get("id") == bid]
            if not uses or len(uses) != len(fnodes):
                continue
            ids = {f["name"]: bid * 1000 + 7 + i for i, f in enumerate(fields)}
            for fnode in fnodes:
                name = fnode["name"]
                if name not in ids:
                    break
                ty, sp = fnode.get("ty"), fnode.get("sp")
                fnode.clear()
                fnode.update({"k": "Path", "sp": sp, "res": {"r": "local", "name": name, "id": ids[name]}, "ty": ty})
            new_lets = []
            for f in fields:
                fty = f.get("ty")
                if f["name"] in inits:
                    e = inits[f["name"]]
                elif fty == "bool":
                    e = {"k": "Lit", "sp": let.get("sp"), "lit": "bool", "v": False, "ty": "bool"}
                else:
                    e = {"k": "Call", "sp": let.get("sp"), "callee": "core::default::Default::default", "args": [], "ty": fty}
                new_lets.append({"k": "Let", "sp": let.get("sp"), "pat": {"k": "PBind", "sp": let["pat"].get("sp"), "name": f["name"], "id": ids[f["name"]],
                                                                    "mode": "BindingMode(No, Mut)", "ty": fty}, "init": e})
            i = next(k for k, st in enumerate(blk["stmts"]) if st is let)
            blk["stmts"][i:i + 1] = new_lets
            done.setdefault(hb["path"], {})[let["pat"].get("name")] = [f["name"] for f in fields]
    return done



# ------------------------------------------------------------------ `match (e1, flag) { (P, true) => .., (_, false) => .. }`
def _pat_ids(p):
    return [n["id"] for n in walk(p) if n.get("k") == "PBind"]


def _rename_ids(node, m):
    for n in walk(node):
        if n.get("k") == "Path" and n["res"].get("r") == "local" and n["res"].get("id") in m:
            n["res"]["id"] = m[n["res"]["id"]]
        elif n.get("k") == "PBind" and n.get("id") in m:
            n["id"] = m[n["id"]]


def untuple_bool_matches(facts):
    """A match on a tuple in which some component is only ever tested against `true` / `false` / `_` is the nested `if` it abbreviates:
    it is rewritten (HIR view) into the decision tree, component by component, so that the facts known in each arm are ordinary
    `if` / `if let` conditions. Returns {function: number of matches rewritten}."""
    from .rules.hirtext import pat_str
    done = {}

    def is_bool(p):
        return p.get("k") == "PLit" and p.get("lit") == "bool"

    def is_wild(p):
        return p.get("k") == "PWild"

    def build(arms, items, i, ty, sp):
        # arms: list of (component patterns, body)
        if not arms:
            return None
        if i == len(items) or all(is_wild(p) for p in arms[0][0][i:]):
            return copy.deepcopy(arms[0][1])     # (an arm with wildcards can end up in several branches)
        col = [a[0][i] for a in arms]
        if all(is_wild(p) for p in col):
            return build(arms, items, i + 1, ty, sp)
        first = next(p for p in col if not is_wild(p))
        if is_bool(first):
            if not all(is_bool(p) or is_wild(p) for p in col):
                return None
            t = [a for a in arms if is_wild(a[0][i]) or a[0][i].get("v") is True]
            f = [a for a in arms if is_wild(a[0][i]) or a[0][i].get("v") is False]
            bt, bf = build(t, items, i + 1, ty, sp), build(f, items, i + 1, ty, sp)
            if bt is None or bf is None:
                return None
            return {"k": "If", "sp": sp, "cond": items[i], "then": bt, "else": bf, "ty": ty, "from_tuple_match": True}
        text = pat_str(first)
        if not all(is_wild(p) or pat_str(p) == text for p in col):
            return None
        ids = _pat_ids(first)
        m_arms, n_arms = [], []
        for a in arms:
            p = a[0][i]
            if is_wild(p):
                m_arms.append(a)
                n_arms.append(a)
            else:
                if p is not first:
                    mine = _pat_ids(p)
                    if len(mine) != len(ids):
                        return None
                    _rename_ids(a[1], dict(zip(mine, ids)))
                m_arms.append(a)
        bm, bn = build(m_arms, items, i + 1, ty, sp), build(n_arms, items, i + 1, ty, sp)
        if bm is None or bn is None:
            return None
        cond = {"k": "LetExpr", "sp": first.get("sp"), "pat": first, "init": items[i], "ty": "bool"}
        return {"k": "If", "sp": sp, "cond": cond, "then": bm, "else": bn, "ty": ty, "from_tuple_match": True}

    for hb in facts.hir:
        if hb["crate"] not in (VISITOR_CRATE, PLUGIN_CRATE) or hb.get("mac"):
            continue
        for n in list(walk(hb["body"])):
            if n.get("k") != "Match" or "ForLoop" in (n.get("src") or "") or "Desugar" in (n.get("src") or ""):
                continue
            sc = n["scrut"]
            while sc.get("k") in ("Paren", "DropTemps"):
                sc = sc["e"]
            if sc.get("k") != "Tup":
                continue
            items = sc["items"]
            arms = []
            ok = True
            for a in n["arms"]:
                if a.get("guard") is not None:
                    ok = False
                    break
                p = a["pat"]
                if is_wild(p):
                    comps = [{"k": "PWild"} for _ in items]
                elif p.get("k") == "PTuple" and len(p["pats"]) == len(items):
                    comps = p["pats"]
                else:
                    ok = False
                    break
                arms.append((comps, a["body"]))
            if not ok or not arms:
                continue
            if not any(all(is_bool(a[0][i]) or is_wild(a[0][i]) for a in arms) and any(is_bool(a[0][i]) for a in arms) for i in range(len(items))):
                continue
            # bool columns are tested last (they are plain conditions; the patterns bind what the arms use)
            order = [i for i in range(len(items)) if not all(is_bool(a[0][i]) or is_wild(a[0][i]) for a in arms)] + \
                    [i for i in range(len(items)) if all(is_bool(a[0][i]) or is_wild(a[0][i]) for a in arms)]
            arms2 = [([a[0][i] for i in order], copy.deepcopy(a[1])) for a in arms]
            tree = build(arms2, [items[i] for i in order], 0, n.get("ty"), n.get("sp"))
            if tree is None:
                continue
            n.clear()
            n.update(tree)
            done[hb["path"]] = done.get(hb["path"], 0) + 1
    return done



# ------------------------------------------------------------------ `match Kind::A { Kind::A => x, Kind::B => y }`
def fold_constant_matches(facts):
    """after a helper with a mode parameter has been folded into a call site that passes a constant variant, a match on that
    parameter is a match on a constant: it is replaced by the arm it selects (HIR view). Returns {function: count}."""
    done = {}

    def const_variant(e):
        while isinstance(e, dict) and e.get("k") in ("Paren", "DropTemps", "Ref") or (isinstance(e, dict) and e.get("k") == "Unary" and e.get("op") == "*"):
            e = e["e"]
        if isinstance(e, dict) and e.get("k") == "Path" and e["res"].get("r") == "def" and "Ctor" in (e["res"].get("dk") or "") and e["res"].get("variant"):
            return e["res"].get("adt"), e["res"]["variant"]
        return None
    for hb in facts.hir:
        if hb["crate"] not in (VISITOR_CRATE, PLUGIN_CRATE) or hb.get("mac"):
            continue
        changed = True
        rounds = 0
        while changed and rounds < 4:
            changed = False
            rounds += 1
            for n in list(walk(hb["body"])):
                if n.get("k") != "Match" or "Desugar" in (n.get("src") or "") or "ForLoop" in (n.get("src") or ""):
                    continue
                cv = const_variant(n["scrut"])
                if cv is None:
                    continue
                pick = None
                for a in n["arms"]:
                    p = a["pat"]
                    if a.get("guard") is not None:
                        pick = None
                        break
                    if p.get("k") == "PWild":
                        pick = a
                        break
                    if p.get("k") == "PPath" and (p.get("res") or {}).get("variant"):
                        if (p["res"].get("adt"), p["res"]["variant"]) == cv:
                            pick = a
                            break
                        continue
                    pick = None
                    break
                if pick is None:
                    continue
                body = copy.deepcopy(pick["body"])
                n.clear()
                n.update(body)
                done[hb["path"]] = done.get(hb["path"], 0) + 1
                changed = True
                break
    return done
