"""CFG toolkit over the MIR view: successors, dominators, post-dominators, control dependence,
must-pass-through, back edges."""
from functools import lru_cache


class CFG:
    def __init__(self, body, drop_edges=()):
        """drop_edges: (from_block, to_block) pairs removed from the graph (feature-absent restriction)"""
        self.body = body
        drop_edges = set(drop_edges)
        self.blocks = body["blocks"]
        n = len(self.blocks)
        self.n = n
        self.succ = [[] for _ in range(n)]       # normal edges only
        self.unwind = [None] * n
        self.cleanup = [bool(b.get("cleanup")) for b in self.blocks]
        for b in self.blocks:
            i = b["i"]
            t = b.get("term") or {}
            k = t.get("k")
            s = []
            if k == "goto":
                s = [t["target"]]
            elif k == "switch":
                s = [x[1] for x in t["targets"]] + [t["otherwise"]]
            elif k in ("drop", "assert"):
                s = [t["target"]]
            elif k == "call":
                if "target" in t:
                    s = [t["target"]]
            # return / unreachable / resume / terminate / tailcall: none
            seen = []
            for x in s:
                if x not in seen and (i, x) not in drop_edges:
                    seen.append(x)
            self.succ[i] = seen
            if "unwind" in t:
                self.unwind[i] = t["unwind"]
        self.pred = [[] for _ in range(n)]
        for i in range(n):
            for s in self.succ[i]:
                self.pred[s].append(i)
        self.returns = [b["i"] for b in self.blocks if (b.get("term") or {}).get("k") == "return"]
        self.reach = self._reachable(0)
        self._dom = None
        self._pdom = None
        self._cd = None

    def _reachable(self, start):
        seen = {start}
        st = [start]
        while st:
            x = st.pop()
            for s in self.succ[x]:
                if s not in seen:
                    seen.add(s)
                    st.append(s)
        return seen

    # ---- dominators (iterative, sets; bodies are small) --------------------------
    def dom(self):
        if self._dom is None:
            self._dom = self._dominators(0, self.succ, self.pred, self.reach)
        return self._dom

    @staticmethod
    def _dominators(entry, succ, pred, nodes):
        nodes = set(nodes)
        order = []
        seen = set()

        def dfs(start):
            st = [(start, iter(succ[start]))]
            seen.add(start)
            while st:
                x, it = st[-1]
                adv = False
                for s in it:
                    if s in nodes and s not in seen:
                        seen.add(s)
                        st.append((s, iter(succ[s])))
                        adv = True
                        break
                if not adv:
                    order.append(x)
                    st.pop()
        dfs(entry)
        rpo = list(reversed(order))
        dom = {x: None for x in rpo}
        dom[entry] = {entry}
        changed = True
        while changed:
            changed = False
            for x in rpo:
                if x == entry:
                    continue
                ps = [dom[p] for p in pred[x] if p in dom and dom[p] is not None]
                if not ps:
                    continue
                new = set.intersection(*ps) | {x}
                if new != dom[x]:
                    dom[x] = new
                    changed = True
        return {k: (v or {k}) for k, v in dom.items()}

    def dominates(self, a, b):
        d = self.dom()
        return b in d and a in d[b]

    # ---- post-dominators over normal edges, virtual exit joins returns ------------
    def pdom(self):
        if self._pdom is None:
            n = self.n
            EXIT = n
            rsucc = [list(self.pred[i]) for i in range(n)] + [[]]
            rpred = [list(self.succ[i]) for i in range(n)] + [[]]
            exits = [i for i in self.reach if not self.succ[i]]
            # all terminal blocks (return, unreachable, diverging calls) lead to EXIT
            for e in exits:
                rsucc[EXIT].append(e)
                rpred[e].append(EXIT)
            nodes = set(self.reach) | {EXIT}
            self._pdom = self._dominators(EXIT, rsucc, rpred, nodes)
        return self._pdom

    def postdominates(self, a, b):
        p = self.pdom()
        return b in p and a in p[b]

    # ---- control dependence --------------------------------------------------------
    def control_deps(self):
        """cd[b] = set of (branch_block, succ) such that b is control dependent on that edge."""
        if self._cd is None:
            pd = self.pdom()
            cd = {i: set() for i in self.reach}
            for a in self.reach:
                if len(self.succ[a]) < 2:
                    continue
                for s in self.succ[a]:
                    # blocks that post-dominate s but do not strictly post-dominate a
                    for b in self.reach:
                        if b in pd.get(s, ()) and not (b != a and b in pd.get(a, ())):
                            cd[b].add((a, s))
            self._cd = cd
        return self._cd

    def transitive_control_branches(self, b):
        """all branch blocks b is (transitively) control dependent on"""
        cd = self.control_deps()
        seen = set()
        st = [b]
        out = set()
        while st:
            x = st.pop()
            for (a, s) in cd.get(x, ()):
                if (a, s) not in out:
                    out.add((a, s))
                if a not in seen:
                    seen.add(a)
                    st.append(a)
        return out

    # ---- path queries -------------------------------------------------------------
    def reachable_avoiding(self, start, avoid, from_succ=False):
        """blocks reachable from start over normal edges without entering any block in `avoid`"""
        avoid = set(avoid)
        seen = set()
        st = list(self.succ[start]) if from_succ else [start]
        while st:
            x = st.pop()
            if x in seen or x in avoid:
                continue
            seen.add(x)
            st.extend(self.succ[x])
        return seen

    def must_pass(self, through, start=0, ends=None):
        """True iff every path start -> (any return) crosses a block in `through`."""
        ends = self.returns if ends is None else ends
        if start in through:
            return True
        seen = self.reachable_avoiding(start, through)
        return not any(e in seen for e in ends)

    def escaping_exit(self, through, start=0):
        """a return block reachable without passing `through` (for diagnostics)"""
        seen = self.reachable_avoiding(start, through)
        for e in self.returns:
            if e in seen:
                return e
        return None

    def back_edges(self):
        d = self.dom()
        out = []
        for a in self.reach:
            for s in self.succ[a]:
                if s in d.get(a, ()):
                    out.append((a, s))
        return out

    def can_reach(self, a, b):
        return b in self.reachable_avoiding(a, ())

    def reach_after(self, a):
        """blocks reachable strictly after block a's terminator"""
        return self.reachable_avoiding(a, (), from_succ=True)


# ---- event helpers ---------------------------------------------------------------

def calls(body):
    """yield (block_index, term) for every call terminator"""
    for b in body["blocks"]:
        t = b.get("term") or {}
        if t.get("k") == "call":
            yield b["i"], t


def callee_name(t):
    return t.get("resolved") or t.get("callee") or ""


def place_of(op):
    if not isinstance(op, dict):
        return None
    return op.get("copy") or op.get("move")


def op_local(op):
    p = place_of(op)
    return p["l"] if p else None


def op_const(op):
    return op.get("const") if isinstance(op, dict) else None


def assigns(body):
    for b in body["blocks"]:
        for idx, s in enumerate(b["stmts"]):
            if s["k"] == "assign":
                yield b["i"], idx, s


def const_range_of(body, op):
    """(start, end) when `op` is a `start..end` range built from two integer constants in this body, else None"""
    c = op_const(op)
    l = op_local(op)
    if l is None:
        return None
    defs = [s for _, _, s in assigns(body) if s["lhs"]["l"] == l and not s["lhs"].get("p")]
    if len(defs) != 1:
        return None
    rv = defs[0]["rv"]
    if rv.get("rk") == "use":
        return const_range_of(body, rv.get("op"))
    if rv.get("rk") == "agg" and (rv.get("adt") or "").endswith("ops::range::Range") and len(rv.get("ops", [])) == 2:
        out = []
        for o in rv["ops"]:
            c = op_const(o)
            if c is None:
                ll = op_local(o)
                dd = [s for _, _, s in assigns(body) if s["lhs"]["l"] == ll and not s["lhs"].get("p")]
                if len(dd) == 1 and dd[0]["rv"].get("rk") == "use":
                    c = op_const(dd[0]["rv"].get("op"))
            if c is None or c.get("int") is None:
                return None
            out.append(c["int"])
        return tuple(out)
    return None
