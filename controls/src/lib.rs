#![allow(dead_code, unused, static_mut_refs)]
use std::collections::{HashMap, HashSet};
use swc_core::ecma::ast::*;

// R08.3: iteration order of std hash containers
pub fn hash_map_iteration(m: &HashMap<String, u32>) -> Vec<u32> {
    m.values().copied().collect()
}
pub fn hash_set_into_iter(s: HashSet<u8>) -> Vec<u8> {
    s.into_iter().collect()
}
// R08.3: clock / environment / addresses / global state
pub fn clock() -> std::time::Instant {
    std::time::Instant::now()
}
pub fn environment() -> Option<String> {
    std::env::var("X").ok()
}
pub fn address(x: &u8) -> usize {
    x as *const u8 as usize
}
static mut COUNTER: u32 = 0;
pub fn global_state() -> u32 {
    unsafe {
        COUNTER += 1;
        COUNTER
    }
}
// R07.1: JSX expression nodes
pub fn jsx_empty(e: JSXEmptyExpr) -> Expr {
    Expr::JSXEmpty(e)
}
pub fn jsx_conversion(e: Box<JSXElement>) -> Expr {
    Expr::from(e)
}
// R11.3: order-changing operations on lowering lists
pub fn reversed(v: Vec<PropOrSpread>) -> Vec<PropOrSpread> {
    v.into_iter().rev().collect()
}
pub fn reversed_in_place(mut v: Vec<Expr>) -> Vec<Expr> {
    v.reverse();
    v
}
pub fn inserted_in_front(mut v: Vec<ExprOrSpread>, e: ExprOrSpread) -> Vec<ExprOrSpread> {
    v.insert(0, e);
    v
}
// R02.1: Unicode-white-space / lines() APIs
pub fn unicode_trim(s: &str) -> String {
    s.lines().map(|l| l.trim()).collect::<Vec<_>>().join(" ")
}
// R08.1: panic-capable sites
pub fn panic_sites(v: &mut Vec<u8>, o: Option<u8>, s: &str) -> u8 {
    let a = v.remove(3);
    let b = v[7];
    let c = o.unwrap();
    let d = &s[1..];
    a + b + c + d.len() as u8
}
// R08.4: a loop that is not driven by an iterator
pub fn spin(mut n: u64) -> u64 {
    while n != 1 {
        n = if n % 2 == 0 { n / 2 } else { 3 * n + 1 };
    }
    n
}
// R08.2: recursion that passes its own argument on
pub fn no_progress(e: &Expr) -> usize {
    if matches!(e, Expr::This(..)) {
        0
    } else {
        no_progress(e)
    }
}

// R05.6: a template literal read as a constant string without looking at its substitutions
pub fn tpl_first_quasi(e: &Expr) -> Option<&str> {
    match e {
        Expr::Tpl(Tpl { quasis, .. }) => quasis.first().map(|q| &*q.raw),
        _ => None,
    }
}

// R16.12: a first-wins combinator over the constituents of an intersection
pub mod resolve_type {
    use swc_core::ecma::ast::*;
    pub fn first_constituent(t: &TsIntersectionType) -> Option<&TsType> {
        let TsIntersectionType { types, .. } = t;
        types.iter().find_map(|ty| Some(&**ty))
    }
}
