#!/bin/bash
# Build the framework from files on disk only (offline): the rustc driver, then one warm
# extraction (compiles /repo's dependencies with plain nightly rustc, ~1 min cold).
set -e
cd "$(dirname "$0")"
export CARGO_NET_OFFLINE=true
python3 - <<'PY'
from vjsx import extract
extract.build_driver()
d, h, now, s = extract.ensure_facts()
print("setup: facts in", d, "hash", h[:12], "%.1fs" % s)
PY
